"""Helpers shared by the llsym harnesses: obligation discharge with replay and
known-finding exclusion, reachability witnesses, parallel case running."""
import time, os, sys, json, traceback
import z3
from . import common, llsym


def mval(m, e):
    """evaluate expression/int in a model -> python int"""
    if isinstance(e, int):
        return e
    v = m.eval(e, model_completion=True)
    if z3.is_bv_value(v):
        return v.as_long()
    if z3.is_true(v):
        return True
    if z3.is_false(v):
        return False
    if z3.is_int_value(v):
        return v.as_long()
    return str(v)


def smval(m, e, w):
    return llsym.signed(mval(m, e), w)


class Tag(object):
    """A named class of failing inputs, in concrete form (over a replayed case dict) and in
    symbolic form (z3 predicate over the harness inputs) -- used to match known findings and
    to exclude them from the query so that other violations are still found."""

    def __init__(self, name, concrete, symbolic):
        self.name, self.concrete, self.symbolic = name, concrete, symbolic


def discharge(chk, ex, name, prop, inputs, tags=(), replay=None, describe=None, extra_case=None,
              max_rounds=6, prefer=None):
    """Prove `prop` under ex's current path condition.
    inputs : dict name -> z3 expr/int (evaluated in counter-models to build the concrete case)
    tags   : list of Tag
    replay : callable(case) -> (ok, script_path); ok True if the violation reproduces on the
             real build, False if not, None if no replay is possible for this obligation
    prefer : optional condition describing the inputs the replay script can drive through the
             public API; when a counter-model exists, one inside that region is looked for first
             (the verdict does not depend on it: if none exists the unrestricted model is used)
    Returns True if discharged (possibly modulo known findings)."""
    excl = []
    for rnd in range(max_rounds):
        t = time.time()
        cond = llsym.b_and(llsym.b_not(prop), *[llsym.b_not(e) for e in excl])
        try:
            m = ex.sat(cond)
        except llsym.Unsupported as e:
            chk.query(name, 'unknown', time.time() - t)
            chk.inconc('%s: %s' % (name, e))
            return False
        if m is not None and prefer is not None:
            try:
                m2 = ex.sat(llsym.b_and(cond, prefer))
            except llsym.Unsupported:
                m2 = None
            if m2 is not None:
                m = m2
        dt = time.time() - t
        if m is None:
            chk.query(name, 'unsat', dt)
            return True
        case = {k: mval(m, v) for k, v in inputs.items()}
        if extra_case:
            case.update(extra_case)
        case['obligation'] = name
        ctags = {t_.name: True for t_ in tags if t_.concrete(case)}
        ok, script = (None, None)
        rec = chk.match_known(ctags)
        if replay is not None:
            try:
                ok, script = replay(case)
            except Exception as e:
                traceback.print_exc()
                ok, script = None, None
                chk.inconc('%s: replay machinery failed: %s' % (name, e))
        what = (describe(case) if describe else json.dumps(case, default=str))
        chk.query(name, 'sat', dt, detail=what[:300])
        res = chk.report_failure('%s: %s' % (name, what), ctags, script, ok)
        if res == 'known':
            # exclude exactly the matched tag(s) and look for a different violation
            sym = [t_.symbolic(inputs) for t_ in tags if t_.name in rec.get('match', {})]
            excl.append(llsym.b_and(*sym) if sym else True)
            continue
        return False
    chk.inconc('%s: more than %d known-finding rounds' % (name, max_rounds))
    return False


def witness(chk, ex, name, cond=True):
    """Reachability witness: pc /\\ cond must be satisfiable; records a sample input."""
    t = time.time()
    m = ex.sat(cond)
    if m is not None:
        chk.witness(name)
    return m


class _Safe(object):
    """runs the worker and turns an escaping exception into a result record (one failing case must
    not discard the results of all the others)"""

    def __init__(self, worker):
        self.worker = worker

    def __call__(self, case):
        try:
            return self.worker(case)
        except BaseException as e:
            traceback.print_exc()
            c = common.Check(case[0], case[1])
            kind = 'harness_errors' if isinstance(e, common.HarnessError) else 'inconclusive'
            msg = 'case %r: %s: %s' % (case[2:], type(e).__name__, str(e)[-400:])
            print('%s: property=%s %s' % ('HARNESS-ERROR' if kind == 'harness_errors' else 'INCONCLUSIVE', case[0], msg))
            getattr(c, kind).append(msg)
            return export(c)


def run_cases(chk, cases, worker, procs=None):
    worker = _Safe(worker)
    """Run worker(case) for each case in a process pool; each returns a partial result dict
    that is merged into chk.  worker must be a top-level function (picklable by name)."""
    import multiprocessing as mp
    common.scratch_dir()       # created (and removed at exit) by the parent: forked workers share it
    procs = procs or min(len(cases), int(os.environ.get('VERIF_PROCS', '12')))
    if procs <= 1 or len(cases) <= 1:
        results = [worker(c) for c in cases]
    else:
        ctx = mp.get_context('fork')
        with ctx.Pool(procs) as pool:
            results = pool.map(worker, cases, chunksize=1)
    for r in results:
        merge(chk, r)
    return results


def sub_check(prop, tier):
    """a fresh Check used inside a worker process (stdout lines are still printed there)"""
    c = common.Check(prop, tier)
    c.quiet_known = True       # the parent prints each known finding once when merging
    return c


def export(c, ex=None):
    d = {
        'queries': c.queries, 'witnesses': sorted(c.witnesses), 'samples': c.samples,
        'violations': c.violations, 'known_hits': c.known_hits, 'inconclusive': c.inconclusive,
        'harness_errors': c.harness_errors, 'paths': c.paths, 'solver_time': c.solver_time,
        'stubs': sorted(c.stubs), 'unwinding': c.unwinding, 'functions': c.functions,
        'tv': c.translator_validation, 'extra': c.extra,
    }
    return json.loads(json.dumps(d, default=str))


def merge(chk, d):
    chk.queries.extend(d['queries'])
    chk.witnesses.update(d['witnesses'])
    for s in d['samples']:
        chk.sample(s)
    chk.violations.extend(d['violations'])
    for k in d['known_hits']:
        if k['id'] not in [x['id'] for x in chk.known_hits]:
            chk.known_hits.append(k)
            print('KNOWN-FINDING: property=%s %s' % (chk.prop, k['what']))
            sys.stdout.flush()
    chk.inconclusive.extend(d['inconclusive'])
    chk.harness_errors.extend(d['harness_errors'])
    chk.paths += d['paths']
    chk.solver_time += d['solver_time']
    chk.stubs.update(d['stubs'])
    chk.unwinding += d['unwinding']
    have = set(f['name'] for f in chk.functions)
    for f in d['functions']:
        if f['name'] not in have:
            chk.functions.append(f)
            have.add(f['name'])
    chk.translator_validation['samples'] += d['tv']['samples']
    chk.translator_validation['disagreements'] += d['tv']['disagreements']
    for k, v in d.get('extra', {}).items():
        if isinstance(v, list):
            chk.extra.setdefault(k, [])
            for x in v:
                if x not in chk.extra[k]:
                    chk.extra[k].append(x)
        elif isinstance(v, (int, float)) and not isinstance(v, bool):
            chk.extra[k] = chk.extra.get(k, 0) + v
        else:
            chk.extra[k] = v


def finish_explore(chk, ex, res, label):
    """fold an Executor.explore() result into chk"""
    chk.paths += res['paths']
    for p in res['problems']:
        if p.startswith('UNWIND'):
            chk.unwinding += 1
        chk.inconc('%s: %s' % (label, p))
    chk.stubs.update(ex.stub_calls)
    for key, (what, m) in ex.ub_events.items():
        chk.extra.setdefault('ub_reachable', [])
        if what not in chk.extra['ub_reachable']:
            chk.extra['ub_reachable'].append(what)
