"""CPython environment model for llsym (DESIGN.md 2.1 "CPython model").

Objects are memory regions with a real header (ob_refcnt, ob_type) so that the inline
macros in the IR (Py_INCREF, PyLong_Check, PyTuple_GET_ITEM, PyFloat_AS_DOUBLE, ...) run
as real loads.  Payloads the C code can only see through API calls are kept outside
symbolic memory:

  int   -> V : signed 128-bit vector.  Sound for ints of any magnitude because the C code
           can observe V only through the PyLong_As*/_PyLong_Sign contracts below, which
           expose nothing but the class (< -2^63, [-2^63,0), [0,2^63), [2^63,2^64), >= 2^64)
           and the low 64 bits; every integer has a representative with |V| < 2^127 having
           the same class and low bits.
  float -> the 64 IEEE bits, stored in memory at ob_fval (offset 16), as the macro
           PyFloat_AS_DOUBLE reads them.

Each contract function below documents the CPython behaviour it encodes; all stubs used
in a run are listed in that run's evidence.  Allocation never fails in this model
(PyErr_NoMemory paths are outside every claim)."""
import z3
from . import llsym
from .llsym import is_c, bv, simp, mask, PathEnd, Unsupported

W = 128
TPFLAGS = {
    'PyLong_Type': 1 << 24, 'PyList_Type': 1 << 25, 'PyTuple_Type': 1 << 26, 'PyBytes_Type': 1 << 27,
    'PyUnicode_Type': 1 << 28, 'PyDict_Type': 1 << 29, 'PyType_Type': 1 << 31,
    'PyBool_Type': 1 << 24,
}
TP_FLAGS_OFF = 168
TYPEOBJ_SIZE = 416

S64_MIN = -(1 << 63)


def V_const(x):
    return z3.BitVecVal(x, W)


def V_fits_s64(V):
    return z3.And(V >= V_const(S64_MIN), V < V_const(1 << 63))


def V_fits_u64(V):
    return z3.And(V >= V_const(0), V < V_const(1 << 64))


def V_low64(V):
    return simp(z3.Extract(63, 0, V))


def V_from_s64(v):
    if is_c(v):
        return V_const(llsym.signed(v, 64))
    return z3.SignExt(64, v)


def V_from_u64(v):
    if is_c(v):
        return V_const(v)
    return z3.ZeroExt(64, v)


class PyEnv(object):
    """Per-path CPython state.  Create one at the start of each path: PyEnv(ex)."""

    def __init__(self, ex):
        self.ex = ex
        ex.ghost['py'] = self
        self.exc = None          # name of the pending exception class (str) or None
        self.exc_log = []
        self.objs = {}           # base address -> dict(kind=..., ...)
        self.types = {}
        self.created = []        # objects created by API constructors, in order
        self.refcnt0 = 3

    # ---- objects ------------------------------------------------------------
    def type_addr(self, name):
        return self.ex.gaddr(name)

    def new_obj(self, kind, tpname, size=32, **info):
        ex = self.ex
        r = ex.mem.alloc(size, 'py:' + kind, 'pyobj', align=16, fill=0)
        ex.mem.store(r.base, self.refcnt0, 8)
        ex.mem.store(r.base + 8, self.type_addr(tpname), 8)
        info['kind'] = kind
        info['region'] = r
        self.objs[r.base] = info
        return r.base

    def info(self, addr):
        addr = simp(addr)
        if not is_c(addr):
            raise Unsupported('symbolic PyObject pointer')
        i = self.objs.get(addr)
        if i is None:
            raise Unsupported('PyObject* %#x is not a modelled object' % addr)
        return i

    def new_int(self, V, tpname='PyLong_Type'):
        if is_c(V):
            V = V_const(V)
        return self.new_obj('int', tpname, 32, V=V)

    def new_float(self, bits):
        a = self.new_obj('float', 'PyFloat_Type', 32)
        self.ex.mem.store(a + 16, bits, 8)
        self.objs[a]['bits'] = bits
        return a

    def new_bool(self, b):
        """b: python bool -> Py_True / Py_False singletons"""
        return self.ex.gaddr('_Py_TrueStruct' if b else '_Py_FalseStruct')

    def new_opaque(self, what='object', tpname='PyBaseObject_Type', **info):
        return self.new_obj(what, tpname, 64, **info)

    def new_bytes(self, data):
        """data: list of byte values (ints or BV8); NUL terminator added like CPython"""
        n = len(data)
        a = self.new_obj('bytes', 'PyBytes_Type', 32 + n + 1 + 8, data=list(data))
        ex = self.ex
        ex.mem.store(a + 16, n, 8)            # ob_size
        for i, b in enumerate(data):
            ex.mem.store(a + 32 + i, b, 1)
        ex.mem.store(a + 32 + n, 0, 1)
        return a

    def new_tuple(self, items, tpname='PyTuple_Type', kind='tuple'):
        n = len(items)
        a = self.new_obj(kind, tpname, 24 + 8 * max(n, 1), items=list(items))
        ex = self.ex
        ex.mem.store(a + 16, n, 8)
        for i, it in enumerate(items):
            ex.mem.store(a + 24 + 8 * i, it, 8)
        return a

    def new_list(self, items):
        """PyListObject: ob_item pointer at 24, allocated at 32"""
        n = len(items)
        ex = self.ex
        arr = ex.mem.alloc(8 * max(n, 1), 'py:list.ob_item', 'pyobj', align=16, fill=0)
        a = self.new_obj('list', 'PyList_Type', 40, items=list(items), arr=arr)
        ex.mem.store(a + 16, n, 8)
        ex.mem.store(a + 24, arr.base, 8)
        ex.mem.store(a + 32, n, 8)
        for i, it in enumerate(items):
            ex.mem.store(arr.base + 8 * i, it, 8)
        return a

    def new_unicode(self, cps, kind=None):
        """str object with the real compact layout of CPython 3.12.
        cps: list of code points (ints or BVs of width 8*kind); kind 1/2/4; ASCII-compact when
        kind==1 and all concrete code points < 128 (callers with symbolic 1-byte content choose
        `ascii` through kind=(1,'ascii') / (1,'latin1'))."""
        ex = self.ex
        ascii_ = False
        if isinstance(kind, tuple):
            kind, flavour = kind
            ascii_ = flavour == 'ascii'
        elif kind == 1 and all(is_c(c) and c < 128 for c in cps):
            ascii_ = True
        n = len(cps)
        hdr = 40 if ascii_ else 56
        a = self.new_obj('str', 'PyUnicode_Type', hdr + kind * (n + 1) + 8, cps=list(cps), ukind=kind,
                         ascii=ascii_)
        ex.mem.store(a + 16, n, 8)                      # length
        ex.mem.store(a + 24, mask(64), 8)               # hash = -1
        # state: interned:2, kind:3, compact:1, ascii:1, ...
        state = (0) | (kind << 2) | (1 << 5) | ((1 if ascii_ else 0) << 6)
        ex.mem.store(a + 32, state, 4)
        if not ascii_:
            ex.mem.store(a + 40, 0, 8)                  # utf8_length
            ex.mem.store(a + 48, 0, 8)                  # utf8
        for i, c in enumerate(cps):
            ex.mem.store(a + hdr + kind * i, c, kind)
        ex.mem.store(a + hdr + kind * n, 0, kind)
        return a

    def read_unicode(self, addr):
        """(kind, [code points]) of a str object, read back from its memory"""
        i = self.info(addr)
        ex = self.ex
        n = simp(ex.mem.load(addr + 16, 8))
        if not is_c(n):
            raise Unsupported('str object with symbolic length')
        kind = i['ukind']
        hdr = 40 if i['ascii'] else 56
        return kind, [ex.mem.load(addr + hdr + kind * k, kind) for k in range(n)]

    # ---- exceptions -------------------------------------------------------------
    def set_exc(self, exc_obj_addr, why=''):
        name = self.exc_name(exc_obj_addr)
        self.exc = name
        self.exc_log.append((name, why))

    def exc_name(self, addr):
        addr = simp(addr)
        if is_c(addr):
            r = self.ex.mem.region_of(addr)
            if r is not None and r.name.startswith('exc:'):
                return r.name[4:]
            i = self.objs.get(addr)
            if i is not None and 'excname' in i:
                return i['excname']
        return 'exception@%s' % (addr,)

    def exc_addr(self, name):
        """address of the exception class object for PyExc_<name>"""
        p = self.ex.gaddr(name)
        return self.ex.mem.load(p, 8)


def py(ex):
    return ex.ghost['py']


# ---------------------------------------------------------------------------------
# external globals

def extern_global(ex, name, g, m):
    """Model for CPython's exported data: type objects, exception pointers, singletons."""
    mem = ex.mem
    if name.startswith('PyExc_'):
        obj = mem.alloc(64, 'exc:' + name, 'pyobj', fill=0)
        mem.store(obj.base, 1 << 32, 8)   # immortal-ish refcount, never reaches 0
        r = mem.alloc(8, '@' + name, 'global')
        mem.store(r.base, obj.base, 8)
        return r
    if name.endswith('_Type'):
        r = mem.alloc(TYPEOBJ_SIZE, '@' + name, 'global', fill=0)
        mem.store(r.base, 1 << 32, 8)
        mem.store(r.base + TP_FLAGS_OFF, TPFLAGS.get(name, 0), 8)
        return r
    if name in ('_Py_NoneStruct', '_Py_TrueStruct', '_Py_FalseStruct', '_Py_NotImplementedStruct',
                '_Py_EllipsisObject'):
        r = mem.alloc(32, '@' + name, 'global', fill=0)
        mem.store(r.base, 0xffffffff, 8)        # immortal
        tp = {'_Py_NoneStruct': '_PyNone_Type', '_Py_TrueStruct': 'PyBool_Type',
              '_Py_FalseStruct': 'PyBool_Type', '_Py_NotImplementedStruct': '_PyNotImplemented_Type',
              '_Py_EllipsisObject': 'PyEllipsis_Type'}[name]
        ex.global_regions[name] = r
        mem.store(r.base + 8, ex.gaddr(tp), 8)
        p = ex.ghost.get('py')
        if p is not None:
            if name == '_Py_TrueStruct':
                p.objs[r.base] = {'kind': 'int', 'V': V_const(1), 'bool': True, 'region': r}
            elif name == '_Py_FalseStruct':
                p.objs[r.base] = {'kind': 'int', 'V': V_const(0), 'bool': False, 'region': r}
            else:
                p.objs[r.base] = {'kind': name, 'region': r}
        return r
    if name in ('stderr', 'stdout', 'stdin'):
        # FILE * of the C library: only handed to fprintf-like stubs
        r = mem.alloc(8, '@' + name, 'global', fill=0)
        mem.store(r.base, mem.alloc(8, 'FILE ' + name, 'heap', fill=0).base, 8)
        return r
    if name.startswith('ffi_type_'):
        # libffi's type descriptors: only their addresses are used by the code under test
        return mem.alloc(24, '@' + name, 'global', fill=0)
    raise Unsupported('external global @%s has no model' % name)


# ---------------------------------------------------------------------------------
# API contracts

def _kind(ex, o):
    return py(ex).info(o)['kind']


def PyErr_Occurred(ex):
    p = py(ex)
    if p.exc is None:
        return 0
    # the address of the class object if it is a PyExc_*, else a non-null token
    if p.exc.startswith('PyExc_'):
        return p.exc_addr(p.exc)
    return 0xdead0000


def PyErr_Clear(ex):
    py(ex).exc = None


def PyErr_SetString(ex, exc, msg):
    py(ex).set_exc(exc, 'PyErr_SetString')


def PyErr_Format(ex, exc, fmt, *args):
    py(ex).set_exc(exc, 'PyErr_Format')
    return 0


def PyErr_SetObject(ex, exc, val):
    py(ex).set_exc(exc, 'PyErr_SetObject')


def PyErr_SetNone(ex, exc):
    py(ex).set_exc(exc, 'PyErr_SetNone')


def PyErr_NoMemory(ex):
    p = py(ex)
    p.exc = 'PyExc_MemoryError'
    p.exc_log.append((p.exc, 'PyErr_NoMemory'))
    return 0


def PyErr_Fetch(ex, ptype, pvalue, ptb):
    """moves the pending exception (if any) into the three out-parameters and clears it"""
    p = py(ex)
    tok = 0
    if p.exc is not None:
        tok = p.new_opaque('fetched-exception', excname_saved=p.exc)
    p.exc = None
    ex.mem.store(ptype, tok, 8)
    ex.mem.store(pvalue, 0, 8)
    ex.mem.store(ptb, 0, 8)


def PyErr_Restore(ex, t, v, tb):
    """sets the pending exception from a triple obtained by PyErr_Fetch (NULL clears it)"""
    p = py(ex)
    t = simp(t)
    if is_c(t) and t == 0:
        p.exc = None
        return
    i = p.objs.get(t) if is_c(t) else None
    if i is not None and 'excname_saved' in i:
        p.exc = i['excname_saved']
    else:
        p.set_exc(t, 'PyErr_Restore')


def PyErr_ExceptionMatches(ex, exc):
    p = py(ex)
    if p.exc is None:
        return 0
    return 1 if p.exc == p.exc_name(exc) else 0


def _overflow(ex, why):
    p = py(ex)
    p.exc = 'PyExc_OverflowError'
    p.exc_log.append((p.exc, why))


def _typeerror(ex, why):
    p = py(ex)
    p.exc = 'PyExc_TypeError'
    p.exc_log.append((p.exc, why))


def _as_int_payload(ex, o, api):
    """PyLong_As* on a non-int calls __index__ (3.10+: no __int__).  Modelled kinds:
    int -> its payload; float/other -> TypeError (CPython: 'object cannot be interpreted as
    an integer')."""
    i = py(ex).info(o)
    if i['kind'] == 'int':
        return i['V']
    if i['kind'] == 'index':          # object with __index__ returning payload V
        return i['V']
    _typeerror(ex, api + ' on ' + i['kind'])
    return None


def PyLong_AsLongLong(ex, o):
    """value if -2^63 <= v < 2^63, else -1 with OverflowError"""
    V = _as_int_payload(ex, o, 'PyLong_AsLongLong')
    if V is None:
        return mask(64)
    if ex.decide(V_fits_s64(V)):
        return V_low64(V)
    _overflow(ex, 'PyLong_AsLongLong')
    return mask(64)


PyLong_AsLong = PyLong_AsLongLong
PyLong_AsSsize_t = PyLong_AsLongLong


def PyLong_AsUnsignedLongLong(ex, o):
    """value if 0 <= v < 2^64, else (unsigned)-1 with OverflowError; TypeError for non-int
    (PyLong_AsUnsignedLongLong does not call __index__)."""
    i = py(ex).info(o)
    if i['kind'] != 'int':
        _typeerror(ex, 'PyLong_AsUnsignedLongLong on non-int')
        return mask(64)
    V = i['V']
    if ex.decide(V_fits_u64(V)):
        return V_low64(V)
    _overflow(ex, 'PyLong_AsUnsignedLongLong')
    return mask(64)


def PyLong_AsUnsignedLongLongMask(ex, o):
    """v mod 2^64 (never fails for an int)"""
    V = _as_int_payload(ex, o, 'PyLong_AsUnsignedLongLongMask')
    if V is None:
        return mask(64)
    return V_low64(V)


def _PyLong_Sign(ex, o):
    V = py(ex).info(o)['V']
    if ex.decide(V == 0):
        return 0
    if ex.decide(V < 0):
        return mask(32)
    return 1


def PyLong_FromLong(ex, v):
    p = py(ex)
    a = p.new_int(V_from_s64(v))
    p.created.append(('PyLong_FromLong', a, v))
    return a


def PyLong_FromLongLong(ex, v):
    p = py(ex)
    a = p.new_int(V_from_s64(v))
    p.created.append(('PyLong_FromLongLong', a, v))
    return a


def PyLong_FromSsize_t(ex, v):
    p = py(ex)
    a = p.new_int(V_from_s64(v))
    p.created.append(('PyLong_FromSsize_t', a, v))
    return a


def PyLong_FromUnsignedLong(ex, v):
    p = py(ex)
    a = p.new_int(V_from_u64(v))
    p.created.append(('PyLong_FromUnsignedLong', a, v))
    return a


def PyLong_FromUnsignedLongLong(ex, v):
    p = py(ex)
    a = p.new_int(V_from_u64(v))
    p.created.append(('PyLong_FromUnsignedLongLong', a, v))
    return a


def PyLong_FromVoidPtr(ex, v):
    p = py(ex)
    a = p.new_int(V_from_u64(v))
    p.created.append(('PyLong_FromVoidPtr', a, v))
    return a


def PyBool_FromLong(ex, v):
    p = py(ex)
    b = ex.decide(llsym.b_not(llsym.eq(v, 0, 64)))
    a = p.new_bool(b)
    p.created.append(('PyBool_FromLong', a, 1 if b else 0))
    return a


def PyFloat_FromDouble(ex, bits):
    p = py(ex)
    a = p.new_float(bits)
    p.created.append(('PyFloat_FromDouble', a, bits))
    return a


def PyFloat_AsDouble(ex, o):
    """float -> its value; int -> TypeError-free conversion is outside the harnesses
    (they pass floats); other -> -1.0 with TypeError"""
    i = py(ex).info(o)
    if i['kind'] == 'float':
        return ex.mem.load(simp(o) + 16, 8)
    if i['kind'] == 'floatable':     # object with __float__ returning bits
        return i['bits']
    _typeerror(ex, 'PyFloat_AsDouble on ' + i['kind'])
    return 0xBFF0000000000000     # -1.0


def PyObject_Str(ex, o):
    p = py(ex)
    return p.new_opaque('strof')


def PyObject_Repr(ex, o):
    return py(ex).new_opaque('reprof')


def PyUnicode_AsUTF8(ex, s):
    """UTF-8 text of a str: exact for model strs with concrete ASCII content, otherwise an
    arbitrary NUL-terminated text of < 16 bytes (only used for error messages)"""
    p = py(ex)
    i = p.objs.get(simp(s)) if is_c(simp(s)) else None
    if i is not None and i.get('kind') == 'str':
        kind, cps = p.read_unicode(simp(s))
        cps = [simp(c) for c in cps]
        if all(is_c(c) and 0 < c < 128 for c in cps):
            r = ex.mem.alloc(len(cps) + 1, 'utf8 text', 'pyobj', fill=0)
            for k, c in enumerate(cps):
                ex.mem.store(r.base + k, c, 1)
            return r.base
    r = ex.mem.alloc(16, 'utf8 text', 'pyobj')
    ex.mem.store(r.base + 15, 0, 1)
    return r.base


def PyType_IsSubtype(ex, a, b):
    """Types are identified by address; the model has no subclasses except bool <: int."""
    a, b = simp(a), simp(b)
    if is_c(a) and is_c(b):
        if a == b:
            return 1
        if a == ex.gaddr('PyBool_Type') and b == ex.gaddr('PyLong_Type'):
            return 1
        return 0
    raise Unsupported('PyType_IsSubtype on symbolic types')


def _Py_Dealloc(ex, o):
    """Reference counts of model objects start at 3 so that the code under test never frees
    an input; objects created and dropped by the code itself may reach 0: record it."""
    p = py(ex)
    o = simp(o)
    i = p.objs.get(o)
    if i is not None:
        i['dealloc'] = i.get('dealloc', 0) + 1
    return None


def PyIndex_Check(ex, o):
    k = _kind(ex, o)
    return 1 if k in ('int', 'index') else 0


def PyNumber_AsSsize_t(ex, o, exc):
    """int v: v if it fits Py_ssize_t; else if exc==NULL clamp to min/max, else raise exc.
    non-index: TypeError, -1."""
    V = _as_int_payload(ex, o, 'PyNumber_AsSsize_t')
    if V is None:
        return mask(64)
    if ex.decide(V_fits_s64(V)):
        return V_low64(V)
    exc = simp(exc)
    if is_c(exc) and exc == 0:
        if ex.decide(V < 0):
            return 1 << 63
        return (1 << 63) - 1
    py(ex).set_exc(exc, 'PyNumber_AsSsize_t overflow')
    return mask(64)


def PyObject_IsTrue(ex, o):
    i = py(ex).info(o)
    if i['kind'] == 'int':
        return 0 if ex.decide(i['V'] == 0) else 1
    if i['kind'] == 'float':
        bits = ex.mem.load(simp(o) + 16, 8)
        f = llsym.to_fp(bits, 64)
        return 0 if ex.decide(z3.fpIsZero(f)) else 1
    raise Unsupported('PyObject_IsTrue on ' + i['kind'])


def PyTuple_New(ex, n):
    n = ex.concretize(n, 64, 16, 'tuple size')
    p = py(ex)
    a = p.new_tuple([0] * n)
    p.created.append(('PyTuple_New', a, n))
    return a


def PyList_New(ex, n):
    n = ex.concretize(n, 64, 16, 'list size')
    p = py(ex)
    a = p.new_list([0] * n)
    p.created.append(('PyList_New', a, n))
    return a


def PyBytes_FromStringAndSize(ex, s, n):
    n = ex.concretize(n, 64, 64, 'bytes size')
    p = py(ex)
    s = simp(s)
    if is_c(s) and s == 0:
        data = [ex.fresh('newbytes', 8) for _ in range(n)]
    else:
        data = [ex.mem.load(ex._add64(s, i), 1) for i in range(n)]
    a = p.new_bytes(data)
    p.created.append(('PyBytes_FromStringAndSize', a, data))
    return a


def _PyObject_New(ex, tp):
    """fresh object of the type's basicsize with refcount 1 (allocation never fails)"""
    p = py(ex)
    tp = simp(tp)
    r = ex.mem.region_of(tp) if is_c(tp) else None
    name = r.name[1:] if r is not None else 'type'
    size = 64
    if is_c(tp):
        bs = simp(ex.mem.load(tp + 32, 8))     # tp_basicsize
        if is_c(bs) and 16 <= bs <= 4096:
            size = bs
    reg = ex.mem.alloc(size, 'py:new ' + name, 'pyobj', align=16)
    ex.mem.store(reg.base, 1, 8)
    ex.mem.store(reg.base + 8, tp, 8)
    p.objs[reg.base] = {'kind': 'new:' + name, 'region': reg, 'tp': tp}
    p.created.append(('_PyObject_New', reg.base, name))
    return reg.base


def PyObject_Malloc(ex, n):
    n = ex.concretize(n, 64, 64, 'PyObject_Malloc size')
    reg = ex.mem.alloc(n, 'PyObject_Malloc', 'heap', align=16)
    return reg.base


def PyObject_Init(ex, o, tp):
    p = py(ex)
    o = simp(o)
    ex.mem.store(o, 1, 8)
    ex.mem.store(o + 8, tp, 8)
    r = ex.mem.region_of(simp(tp)) if is_c(simp(tp)) else None
    name = r.name[1:] if r is not None else 'type'
    p.objs[o] = {'kind': 'new:' + name, 'region': ex.mem.region_of(o), 'tp': simp(tp)}
    p.created.append(('PyObject_Init', o, name))
    return o


def PyObject_Free(ex, o):
    o = simp(o)
    if is_c(o) and o != 0:
        r = ex.mem.region_of(o)
        if r is not None and r.base == o:
            r.freed = True
    return None


def PyUnicode_FromKindAndData(ex, kind, buf, size):
    """new str whose code points are the `size` units of `kind` bytes at buf (CPython chooses the
    narrowest storage; the value -- the code point sequence -- is what the model keeps)"""
    kind = ex.concretize(kind, 32, 4, 'unicode kind')
    size = ex.concretize(size, 64, 64, 'unicode size')
    if llsym.signed(size, 64) < 0:
        p = py(ex)
        p.exc = 'PyExc_ValueError'
        return 0
    cps = [ex.mem.load(ex._add64(buf, kind * k), kind) for k in range(size)]
    p = py(ex)
    a = p.new_unicode(cps, (kind, 'latin1') if kind == 1 else kind)
    p.created.append(('PyUnicode_FromKindAndData', a, cps))
    return a


def PyUnicode_New(ex, size, maxchar):
    """uninitialised str of `size` code points with storage wide enough for maxchar"""
    size = ex.concretize(size, 64, 64, 'unicode size')
    maxchar = simp(maxchar)
    if not is_c(maxchar):
        raise Unsupported('PyUnicode_New with symbolic maxchar')
    if maxchar < 128:
        kind = (1, 'ascii')
    elif maxchar < 256:
        kind = (1, 'latin1')
    elif maxchar < 65536:
        kind = 2
    else:
        kind = 4
    k = kind[0] if isinstance(kind, tuple) else kind
    p = py(ex)
    a = p.new_unicode([ex.fresh('uninit_char', 8 * k) for _ in range(size)], kind)
    p.created.append(('PyUnicode_New', a, size))
    return a


def PyUnicode_AsUCS4(ex, u, buf, buflen, copy_null):
    """copies the code points of u into buf as 4-byte units; needs buflen >= len (+1 with
    copy_null) else SystemError and NULL; writes a terminating 0 only if copy_null"""
    p = py(ex)
    kind, cps = p.read_unicode(simp(u))
    n = len(cps)
    cn = ex.concretize(copy_null, 32, 4, 'copy_null')
    need = n + (1 if cn else 0)
    if ex.decide(llsym.slt(buflen, need, 64)):
        p.exc = 'PyExc_SystemError'
        p.exc_log.append((p.exc, 'PyUnicode_AsUCS4: string is longer than the buffer'))
        return 0
    for k, c in enumerate(cps):
        ex.mem.store(ex._add64(buf, 4 * k), llsym.zext(c, 8 * kind, 32) if not is_c(c) else c, 4)
    if cn:
        ex.mem.store(ex._add64(buf, 4 * n), 0, 4)
    return buf


def PyUnicode_GetLength(ex, u):
    return py(ex).ex.mem.load(simp(u) + 16, 8)


# ---- abstract dict (association list; keys compared by identity, int value or str content) -------

def _dict_items(ex, d):
    i = py(ex).info(d)
    if 'items' not in i:
        i['items'] = []
    return i['items']


def _same_key(ex, a, b):
    a, b = simp(a), simp(b)
    if a == b:
        return True
    p = py(ex)
    ia, ib = p.objs.get(a), p.objs.get(b)
    if ia is None or ib is None:
        return False
    if ia['kind'] == 'int' and ib['kind'] == 'int':
        return ex.decide(ia['V'] == ib['V'])
    if ia['kind'] == 'str' and ib['kind'] == 'str':
        ka, ca = p.read_unicode(a)
        kb, cb = p.read_unicode(b)
        if len(ca) != len(cb):
            return False
        return ex.decide(llsym.b_and(*[llsym.eq(llsym.zext(x, 8 * ka, 32) if not is_c(x) else x,
                                                llsym.zext(y, 8 * kb, 32) if not is_c(y) else y, 32)
                                       for x, y in zip(ca, cb)]))
    return False


def PyDict_New(ex):
    a = py(ex).new_opaque('dict', 'PyDict_Type', items=[])
    py(ex).created.append(('PyDict_New', a, None))
    return a


def PyDict_SetItem(ex, d, k, v):
    for it in _dict_items(ex, d):
        if _same_key(ex, it[0], k):
            it[1] = simp(v)
            return 0
    _dict_items(ex, d).append([simp(k), simp(v)])
    return 0


def PyDict_GetItem(ex, d, k):
    for it in _dict_items(ex, d):
        if _same_key(ex, it[0], k):
            return it[1]
    return 0


def PyDict_DelItem(ex, d, k):
    items = _dict_items(ex, d)
    for n, it in enumerate(items):
        if _same_key(ex, it[0], k):
            del items[n]
            return 0
    p = py(ex)
    p.exc = 'PyExc_KeyError'
    return mask(32)


def PyDict_Clear(ex, d):
    del _dict_items(ex, d)[:]
    return None


def PyDict_Size(ex, d):
    return len(_dict_items(ex, d))


def PyDict_Next(ex, d, ppos, pkey, pvalue):
    """iteration over a snapshot index; entries deleted during iteration shift like a list (the
    callers under test only delete the current key)"""
    items = _dict_items(ex, d)
    pos = ex.concretize(ex.mem.load(ppos, 8), 64, 64, 'dict position')
    st = py(ex).info(d).setdefault('iter', {})
    order = st.setdefault('order', None)
    if pos == 0:
        st['order'] = order = [it[0] for it in items]
    while pos < len(order):
        k = order[pos]
        pos += 1
        for it in items:
            if it[0] == k:
                ex.mem.store(ppos, pos, 8)
                if simp(pkey) != 0:
                    ex.mem.store(pkey, it[0], 8)
                if simp(pvalue) != 0:
                    ex.mem.store(pvalue, it[1], 8)
                return 1
    ex.mem.store(ppos, pos, 8)
    return 0


def PyDict_Keys(ex, d):
    return py(ex).new_list([it[0] for it in _dict_items(ex, d)])


SSIZE_MAX = (1 << 63) - 1


def _slice_index(ex, o):
    """_PyEval_SliceIndex: None is handled by the caller; ints are clamped to Py_ssize_t;
    returns None (with TypeError pending) for non-index objects"""
    i = py(ex).info(o)
    if i['kind'] != 'int':
        _typeerror(ex, 'slice indices must be integers or None')
        return None
    V = i['V']
    if ex.decide(V_fits_s64(V)):
        return V_low64(V)
    if ex.decide(V < 0):
        return 1 << 63
    return SSIZE_MAX


def PySlice_Unpack(ex, sl, pstart, pstop, pstep):
    """CPython's PySlice_Unpack: step None -> 1, step 0 -> ValueError; start/stop None -> the
    extreme for the step's sign; ints clamped to Py_ssize_t."""
    mem = ex.mem
    none = ex.gaddr('_Py_NoneStruct')
    sl = simp(sl)
    start, stop, step = [simp(mem.load(sl + off, 8)) for off in (16, 24, 32)]
    if step == none:
        st = 1
    else:
        st = _slice_index(ex, step)
        if st is None:
            return mask(32)
        if ex.decide(llsym.eq(st, 0, 64)):
            p = py(ex)
            p.exc = 'PyExc_ValueError'
            p.exc_log.append((p.exc, 'slice step cannot be zero'))
            return mask(32)
        if ex.decide(llsym.slt(st, (-SSIZE_MAX) & mask(64), 64)):
            st = (-SSIZE_MAX) & mask(64)
    neg = ex.decide(llsym.slt(st, 0, 64))
    if start == none:
        a = SSIZE_MAX if neg else 0
    else:
        a = _slice_index(ex, start)
        if a is None:
            return mask(32)
    if stop == none:
        b = (1 << 63) if neg else SSIZE_MAX
    else:
        b = _slice_index(ex, stop)
        if b is None:
            return mask(32)
    mem.store(pstart, a, 8)
    mem.store(pstop, b, 8)
    mem.store(pstep, st, 8)
    return 0


def PySlice_AdjustIndices(ex, length, pstart, pstop, step):
    """CPython's PySlice_AdjustIndices (clamping of start/stop into [0,length] resp. [-1,length-1]);
    returns the slice length.  Only step == 1 and concrete steps are modelled."""
    mem = ex.mem
    step = simp(step)
    if not is_c(step):
        step = ex.concretize(step, 64, 8, 'slice step')
    sstep = llsym.signed(step, 64)
    out = []
    for pp in (pstart, pstop):
        v = mem.load(pp, 8)
        if ex.decide(llsym.slt(v, 0, 64)):
            v = simp(bv(v, 64) + bv(length, 64))
            if ex.decide(llsym.slt(v, 0, 64)):
                v = mask(64) if sstep < 0 else 0
        elif ex.decide(llsym.sle(length, v, 64)):
            v = simp(bv(length, 64) - 1) if sstep < 0 else length
        mem.store(pp, v, 8)
        out.append(v)
    a, b = out
    if sstep < 0:
        if ex.decide(llsym.slt(b, a, 64)):
            return simp(z3.UDiv(bv(a, 64) - bv(b, 64) - 1, z3.BitVecVal(-sstep, 64)) + 1)
    else:
        if ex.decide(llsym.slt(a, b, 64)):
            return simp(z3.UDiv(bv(b, 64) - bv(a, 64) - 1, z3.BitVecVal(sstep, 64)) + 1)
    return 0


def PyObject_GetBuffer(ex, o, view, flags):
    """fills the Py_buffer from the harness-declared exporter info: objs[o]['buffer'] =
    dict(buf, len, itemsize, readonly); objects without it raise TypeError (BufferError for
    a writable request on a read-only exporter)"""
    p = py(ex)
    i = p.info(o)
    b = i.get('buffer')
    if b is None and i['kind'] == 'bytes':
        b = {'buf': simp(o) + 32, 'len': len(i['data']), 'itemsize': 1, 'readonly': 1}
    if b is None:
        _typeerror(ex, 'a bytes-like object is required')
        return mask(32)
    flags = simp(flags)
    if is_c(flags) and (flags & 1) and b.get('readonly'):
        p.exc = 'PyExc_BufferError'
        p.exc_log.append((p.exc, 'Object is not writable'))
        return mask(32)
    mem = ex.mem
    view = simp(view)
    # struct Py_buffer { buf, obj, len, itemsize, readonly(int), ndim(int), format, shape, strides, suboffsets, internal }
    mem.store(view + 0, b['buf'], 8)
    mem.store(view + 8, o, 8)
    mem.store(view + 16, b['len'], 8)
    mem.store(view + 24, b.get('itemsize', 1), 8)
    mem.store(view + 32, b.get('readonly', 0), 4)
    mem.store(view + 36, 1, 4)
    for off in (40, 48, 56, 64, 72):
        mem.store(view + off, 0, 8)
    i['exports'] = i.get('exports', 0) + 1
    p.created.append(('PyObject_GetBuffer', simp(o), view))
    return 0


def PyBuffer_IsContiguous(ex, view, order):
    return 1


def PyBuffer_Release(ex, view):
    """decrements the exporter's export count (view->obj may be NULL: no-op)"""
    p = py(ex)
    view = simp(view)
    o = simp(ex.mem.load(view + 8, 8))
    if is_c(o) and o != 0:
        i = p.objs.get(o)
        if i is not None:
            i['exports'] = i.get('exports', 0) - 1
            i['released'] = i.get('released', 0) + 1
        ex.mem.store(view + 8, 0, 8)
    p.created.append(('PyBuffer_Release', view, o))
    return None


def _PyObject_GC_New(ex, tp):
    return _PyObject_New(ex, tp)


def _PyObject_GC_NewVar(ex, tp, nitems):
    """new variable-size GC object: tp_basicsize + nitems * tp_itemsize bytes exactly (read from the type object)"""
    p = py(ex)
    tp = simp(tp)
    nitems = ex.concretize(nitems, 64, 64, 'nitems')
    basic = simp(ex.mem.load(tp + 32, 8))
    item = simp(ex.mem.load(tp + 40, 8))
    if not (is_c(basic) and is_c(item)) or basic < 16:
        raise Unsupported('_PyObject_GC_NewVar on a type object without a concrete tp_basicsize')
    reg = ex.mem.alloc(basic + nitems * item, 'py:new var object', 'pyobj', align=16)
    ex.mem.store(reg.base, 1, 8)
    ex.mem.store(reg.base + 8, tp, 8)
    ex.mem.store(reg.base + 16, nitems, 8)
    r = ex.mem.region_of(tp)
    kind = 'ctype' if (r is not None and 'CTypeDescr_Type' in r.name) else 'object'
    p.objs[reg.base] = {'kind': kind, 'region': reg}
    p.created.append(('_PyObject_GC_NewVar', reg.base, nitems))
    return reg.base


def PyObject_GC_Track(ex, o):
    return None


def PyObject_GC_UnTrack(ex, o):
    return None


DEFAULT = {
    '@*': extern_global,
    'PyUnicode_FromKindAndData': PyUnicode_FromKindAndData, 'PyUnicode_New': PyUnicode_New,
    'PyUnicode_AsUCS4': PyUnicode_AsUCS4, 'PyUnicode_GetLength': PyUnicode_GetLength,
    'PyDict_New': PyDict_New, 'PyDict_SetItem': PyDict_SetItem, 'PyDict_GetItem': PyDict_GetItem,
    'PyDict_DelItem': PyDict_DelItem, 'PyDict_Clear': PyDict_Clear, 'PyDict_Size': PyDict_Size,
    'PyDict_Next': PyDict_Next, 'PyDict_Keys': PyDict_Keys,
    'PySlice_Unpack': PySlice_Unpack, 'PySlice_AdjustIndices': PySlice_AdjustIndices,
    'PyObject_GetBuffer': PyObject_GetBuffer, 'PyBuffer_IsContiguous': PyBuffer_IsContiguous,
    'PyBuffer_Release': PyBuffer_Release, '_PyObject_GC_New': _PyObject_GC_New,
    '_PyObject_GC_NewVar': _PyObject_GC_NewVar, 'PyObject_GC_Track': PyObject_GC_Track, 'PyObject_GC_UnTrack': PyObject_GC_UnTrack,
    '_PyObject_New': _PyObject_New, 'PyObject_Malloc': PyObject_Malloc, 'PyObject_Init': PyObject_Init,
    'PyObject_Free': PyObject_Free,
    'PyErr_Occurred': PyErr_Occurred, 'PyErr_Clear': PyErr_Clear, 'PyErr_SetString': PyErr_SetString,
    'PyErr_Format': PyErr_Format, 'PyErr_SetObject': PyErr_SetObject, 'PyErr_SetNone': PyErr_SetNone,
    'PyErr_NoMemory': PyErr_NoMemory, 'PyErr_ExceptionMatches': PyErr_ExceptionMatches,
    'PyErr_Fetch': PyErr_Fetch, 'PyErr_Restore': PyErr_Restore,
    'PyLong_AsLongLong': PyLong_AsLongLong, 'PyLong_AsLong': PyLong_AsLong,
    'PyLong_AsSsize_t': PyLong_AsSsize_t, 'PyLong_AsUnsignedLongLong': PyLong_AsUnsignedLongLong,
    'PyLong_AsUnsignedLongLongMask': PyLong_AsUnsignedLongLongMask, '_PyLong_Sign': _PyLong_Sign,
    'PyLong_FromLong': PyLong_FromLong, 'PyLong_FromLongLong': PyLong_FromLongLong,
    'PyLong_FromSsize_t': PyLong_FromSsize_t, 'PyLong_FromUnsignedLong': PyLong_FromUnsignedLong,
    'PyLong_FromUnsignedLongLong': PyLong_FromUnsignedLongLong, 'PyLong_FromVoidPtr': PyLong_FromVoidPtr,
    'PyBool_FromLong': PyBool_FromLong, 'PyFloat_FromDouble': PyFloat_FromDouble,
    'PyFloat_AsDouble': PyFloat_AsDouble, 'PyObject_Str': PyObject_Str, 'PyObject_Repr': PyObject_Repr,
    'PyUnicode_AsUTF8': PyUnicode_AsUTF8, 'PyType_IsSubtype': PyType_IsSubtype, '_Py_Dealloc': _Py_Dealloc,
    'PyIndex_Check': PyIndex_Check, 'PyNumber_AsSsize_t': PyNumber_AsSsize_t,
    'PyObject_IsTrue': PyObject_IsTrue, 'PyTuple_New': PyTuple_New, 'PyList_New': PyList_New,
    'PyBytes_FromStringAndSize': PyBytes_FromStringAndSize,
}

CONTRACTS = {name: (fn.__doc__ or '').strip().replace('\n', ' ') for name, fn in DEFAULT.items()
             if callable(fn)}


def stubs(**overrides):
    d = dict(llsym.LIBC)
    d.update(DEFAULT)
    d.update(overrides)
    return d


# ---------------------------------------------------------------------------------
# cffi object builders (CTypeDescrObject, CFieldObject, CDataObject) with the real offsets

class CffiLayout(object):
    def __init__(self, mod):
        self.mod = mod
        o = mod.struct_layout(('named', 'struct._ctypedescr'))
        names = ['head', 'ct_itemdescr', 'ct_stuff', 'ct_extra', 'ct_weakreflist', 'ct_unique_key',
                 'ct_size', 'ct_length', 'ct_flags', 'ct_flags_mut', 'ct_under_construction',
                 'ct_lazy_field_list', 'ct_unrealized_struct_or_union', 'ct_name_position', 'ct_name']
        assert len(o[0]) == len(names), 'CTypeDescrObject has changed: %r' % (o[0],)
        self.ct = dict(zip(names, o[0]))
        self.ct_sizeof = o[1]
        o = mod.struct_layout(('named', 'struct.cfieldobject_s'))
        names = ['head', 'cf_type', 'cf_offset', 'cf_bitshift', 'cf_bitsize', 'cf_flags', 'cf_next']
        self.cf = dict(zip(names, o[0]))
        self.cf_sizeof = o[1]
        # CDataObject: PyObject_HEAD, c_type, c_data, c_weakreflist
        self.cd = {'c_type': 16, 'c_data': 24, 'c_weakreflist': 32}
        self.flags = read_ct_flags()


_flags = None


def read_ct_flags():
    """CT_* flag values parsed from the C source (#define CT_xxx 0x...)."""
    global _flags
    if _flags is None:
        import re, os
        from . import common
        _flags = {}
        src = open(os.path.join(common.REPO, 'src/c/_cffi_backend.c')).read()
        for m in re.finditer(r'^#define\s+(CT_[A-Z_0-9]+)\s+(0x[0-9A-Fa-f]+|\d+)\s', src, re.M):
            _flags[m.group(1)] = int(m.group(2), 0)
        for m in re.finditer(r'^#define\s+(BS_[A-Z_0-9]+|BF_[A-Z_0-9]+|SF_[A-Z_0-9]+)\s+\(?(-?0x[0-9A-Fa-f]+|-?\d+)\)?\s', src, re.M):
            _flags[m.group(1)] = int(m.group(2), 0)
    return _flags


def new_ctype(ex, L, size, flags, length=-1, itemdescr=0, name=b'T', name_position=None, tp='CTypeDescr_Type',
              stuff=0, extra=0):
    p = py(ex)
    a = p.new_obj('ctype', tp, L.ct_sizeof + len(name) + 8)
    mem = ex.mem
    ct = L.ct
    mem.store(a + 16, len(name) + 1, 8)     # ob_size
    mem.store(a + ct['ct_itemdescr'], itemdescr, 8)
    mem.store(a + ct['ct_stuff'], stuff, 8)
    mem.store(a + ct['ct_extra'], extra, 8)
    mem.store(a + ct['ct_size'], size, 8)
    mem.store(a + ct['ct_length'], length & mask(64) if is_c(length) else length, 8)
    mem.store(a + ct['ct_flags'], flags, 4)
    mem.store(a + ct['ct_name_position'], len(name) if name_position is None else name_position, 4)
    for i, b in enumerate(name):
        mem.store(a + ct['ct_name'] + i, b, 1)
    mem.store(a + ct['ct_name'] + len(name), 0, 1)
    p.objs[a]['size'] = size
    p.objs[a]['flags'] = flags
    return a


def new_cfield(ex, L, ctype, offset, bitshift, bitsize, flags=0):
    p = py(ex)
    a = p.new_obj('cfield', 'CField_Type', L.cf_sizeof)
    mem = ex.mem
    cf = L.cf
    mem.store(a + cf['cf_type'], ctype, 8)
    mem.store(a + cf['cf_offset'], offset, 8)
    mem.store(a + cf['cf_bitshift'], bitshift, 2)
    mem.store(a + cf['cf_bitsize'], bitsize, 2)
    mem.store(a + cf['cf_flags'], flags, 1)
    mem.store(a + cf['cf_next'], 0, 8)
    return a


def new_cdata(ex, L, ctype, data, tp='CData_Type', extra_size=0, kind='cdata'):
    p = py(ex)
    a = p.new_obj(kind, tp, 40 + extra_size)
    ex.mem.store(a + 16, ctype, 8)
    ex.mem.store(a + 24, data, 8)
    p.objs[a]['ctype'] = ctype
    return a
