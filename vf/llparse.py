"""Parser for the textual LLVM IR (LLVM 14, typed pointers) that clang emits for cffi's C code.

Only what the executor needs is kept; metadata and attributes are dropped.  Anything the
parser does not understand inside a function body becomes an instruction with
op='unsupported' (the executor turns reaching it into an inconclusive verdict)."""
import re

# ------------------------------------------------------------------------------------
# tokenizer

_TOK = re.compile(r'''
    (?P<ws>\s+)
  | (?P<comment>;[^\n]*)
  | (?P<cstr>c"(?:[^"\\]|\\[0-9A-Fa-f]{2}|\\\\)*")
  | (?P<str>"(?:[^"\\]|\\.)*")
  | (?P<local>%(?:"(?:[^"\\]|\\.)*"|[-a-zA-Z$._0-9]+))
  | (?P<glob>@(?:"(?:[^"\\]|\\.)*"|[-a-zA-Z$._0-9]+))
  | (?P<meta>![-a-zA-Z$._0-9]*)
  | (?P<attr>\#[0-9]+)
  | (?P<hexfp>0x[KLMHR]?[0-9A-Fa-f]+)
  | (?P<fp>[-+]?[0-9]+\.[0-9]*(?:[eE][-+]?[0-9]+)?)
  | (?P<int>-?[0-9]+)
  | (?P<word>[a-zA-Z_$.][-a-zA-Z$._0-9]*)
  | (?P<dots>\.\.\.)
  | (?P<punct>[,()\[\]{}<>*=:|])
''', re.X)


def tokenize(s):
    out = []
    pos = 0
    n = len(s)
    while pos < n:
        m = _TOK.match(s, pos)
        if not m:
            raise SyntaxError('cannot tokenize at %r' % s[pos:pos + 40])
        pos = m.end()
        k = m.lastgroup
        if k in ('ws', 'comment'):
            continue
        out.append((k, m.group()))
    return out


def _unq(name):
    # %"foo bar" -> foo bar ; %x -> x
    name = name[1:]
    if name.startswith('"'):
        name = name[1:-1]
    return name


def _cstr(tok):
    body = tok[2:-1]
    out = bytearray()
    i = 0
    while i < len(body):
        c = body[i]
        if c == '\\':
            if body[i + 1] == '\\':
                out.append(92)
                i += 2
            else:
                out.append(int(body[i + 1:i + 3], 16))
                i += 3
        else:
            out.append(ord(c))
            i += 1
    return bytes(out)


# ------------------------------------------------------------------------------------
# IR objects

class Instr(object):
    __slots__ = ('op', 'dest', 'ty', 'args', 'extra', 'text')

    def __init__(self, op, dest=None, ty=None, args=None, extra=None, text=''):
        self.op, self.dest, self.ty, self.args, self.extra, self.text = op, dest, ty, args, extra, text

    def __repr__(self):
        return '<%s>' % self.text.strip()


class Function(object):
    def __init__(self, name, ret, params, vararg):
        self.name, self.ret, self.params, self.vararg = name, ret, params, vararg
        self.blocks = {}        # label -> [Instr]
        self.order = []         # labels in textual order
        self.entry = None
        self.declared_only = True
        self.line = 0

    def n_instr(self):
        return sum(len(b) for b in self.blocks.values())


class Global(object):
    def __init__(self, name, ty, init, constant, external, thread_local, linkage):
        self.name, self.ty, self.init = name, ty, init
        self.constant, self.external = constant, external
        self.thread_local, self.linkage = thread_local, linkage


class Module(object):
    def __init__(self):
        self.types = {}       # name -> type (or ('opaque',))
        self.globals = {}
        self.functions = {}
        self.datalayout = ''
        self.path = ''

    # ---- data layout (x86-64 SysV as described by the module's target datalayout) ----
    def resolve(self, t):
        while t[0] == 'named':
            t = self.types[t[1]]
        return t

    def sizeof(self, t):
        return self._sa(t)[0]

    def alignof(self, t):
        return self._sa(t)[1]

    def _sa(self, t):
        k = t[0]
        if k == 'int':
            n = t[1]
            b = (n + 7) // 8
            if b <= 1:
                return 1, 1
            if b <= 2:
                return 2, 2
            if b <= 4:
                return 4, 4
            if b <= 8:
                return 8, 8
            return 16, 16
        if k == 'ptr':
            return 8, 8
        if k == 'float':
            return 4, 4
        if k == 'double':
            return 8, 8
        if k == 'fp80':
            return 16, 16
        if k == 'named':
            c = self._cache.get(t[1])
            if c is None:
                c = self._cache[t[1]] = self._sa(self.types[t[1]])
            return c
        if k == 'array':
            s, a = self._sa(t[2])
            return s * t[1], a
        if k == 'vector':
            s, a = self._sa(t[2])
            tot = s * t[1]
            return tot, tot
        if k == 'struct':
            offs, size, align = self.struct_layout(t)
            return size, align
        if k == 'opaque':
            raise ValueError('sizeof opaque type')
        if k == 'func':
            return 1, 1
        raise ValueError('sizeof %r' % (t,))

    _cache = {}

    def struct_layout(self, t):
        t = self.resolve(t)
        packed = t[2]
        off = 0
        align = 1
        offs = []
        for f in t[1]:
            s, a = self._sa(f)
            if packed:
                a = 1
            off = (off + a - 1) // a * a
            offs.append(off)
            off += s
            align = max(align, a)
        size = (off + align - 1) // align * align
        return offs, size, align


# ------------------------------------------------------------------------------------
# parser

_PARAM_ATTRS = set('''noundef nonnull signext zeroext nocapture readonly writeonly noalias immarg returned
inreg nest swiftself swifterror readnone nofree'''.split())
_FASTMATH = set('fast nnan ninf nsz arcp contract afn reassoc'.split())
_CCONV = set('ccc fastcc coldcc'.split())
_LINKAGE = set('''private internal available_externally linkonce weak common appending extern_weak
linkonce_odr weak_odr external dso_local dso_preemptable default hidden protected unnamed_addr
local_unnamed_addr'''.split())
_BINOPS = set('add sub mul udiv sdiv urem srem and or xor shl lshr ashr fadd fsub fmul fdiv frem'.split())
_CASTS = set('trunc zext sext fptrunc fpext fptoui fptosi uitofp sitofp ptrtoint inttoptr bitcast addrspacecast'.split())


class _P(object):
    def __init__(self, toks, mod):
        self.t = toks
        self.i = 0
        self.mod = mod

    def peek(self, k=0):
        j = self.i + k
        return self.t[j] if j < len(self.t) else ('eof', '')

    def next(self):
        tok = self.peek()
        self.i += 1
        return tok

    def accept(self, val):
        if self.peek()[1] == val:
            self.i += 1
            return True
        return False

    def expect(self, val):
        tok = self.next()
        if tok[1] != val:
            raise SyntaxError('expected %r got %r' % (val, tok))

    def at_end(self):
        return self.i >= len(self.t)

    # ---- types ----
    def type(self):
        k, v = self.next()
        if k == 'word':
            if v == 'void':
                t = ('void',)
            elif v[0] == 'i' and v[1:].isdigit():
                t = ('int', int(v[1:]))
            elif v == 'float':
                t = ('float',)
            elif v == 'double':
                t = ('double',)
            elif v == 'x86_fp80':
                t = ('fp80',)
            elif v == 'half':
                t = ('half',)
            elif v == 'label':
                t = ('label',)
            elif v == 'metadata':
                t = ('metadata',)
            elif v == 'ptr':
                t = ('ptr', ('int', 8))
            elif v == 'opaque':
                t = ('opaque',)
            elif v == 'token':
                t = ('token',)
            else:
                raise SyntaxError('unknown type word %r' % v)
        elif k == 'local':
            t = ('named', _unq(v))
        elif v == '[':
            n = int(self.next()[1])
            self.expect('x')
            e = self.type()
            self.expect(']')
            t = ('array', n, e)
        elif v == '<':
            if self.peek()[1] == '{':
                self.next()
                t = ('struct', self._fieldlist('}'), True)
                self.expect('>')
            else:
                n = int(self.next()[1])
                self.expect('x')
                e = self.type()
                self.expect('>')
                t = ('vector', n, e)
        elif v == '{':
            t = ('struct', self._fieldlist('}'), False)
        else:
            raise SyntaxError('bad type start %r' % v)
        # suffixes
        while True:
            p = self.peek()[1]
            if p == '*':
                self.next()
                t = ('ptr', t)
            elif p == '(':
                self.next()
                params = []
                vararg = False
                while not self.accept(')'):
                    if self.accept('...'):
                        vararg = True
                    else:
                        params.append(self.type())
                        self._skip_param_attrs()
                    self.accept(',')
                t = ('func', t, tuple(params), vararg)
            elif p == 'addrspace':
                self.next()
                self.expect('(')
                self.next()
                self.expect(')')
            else:
                break
        return t

    def _fieldlist(self, close):
        fs = []
        while not self.accept(close):
            fs.append(self.type())
            self.accept(',')
        return tuple(fs)

    def _skip_param_attrs(self):
        while True:
            k, v = self.peek()
            if k == 'word' and v in _PARAM_ATTRS:
                self.next()
            elif k == 'word' and v in ('align', 'dereferenceable', 'dereferenceable_or_null'):
                self.next()
                if self.accept('('):
                    self.next()
                    self.expect(')')
                else:
                    self.next()
            elif k == 'word' and v in ('byval', 'sret', 'inalloca', 'preallocated', 'byref', 'elementtype'):
                self.next()
                if self.accept('('):
                    self.type()
                    self.expect(')')
            else:
                break

    # ---- values ----
    def value(self, ty):
        """Parse an operand of known type `ty`; returns a value tuple."""
        k, v = self.next()
        if k == 'local':
            return ('local', _unq(v))
        if k == 'glob':
            return ('global', _unq(v))
        if k == 'int':
            return ('int', int(v))
        if k == 'fp':
            return ('fp', float(v))
        if k == 'hexfp':
            return ('hexfp', v)
        if k == 'cstr':
            return ('bytes', _cstr(v))
        if k == 'word':
            if v == 'null':
                return ('int', 0)
            if v == 'true':
                return ('int', 1)
            if v == 'false':
                return ('int', 0)
            if v in ('undef', 'poison'):
                return ('undef',)
            if v == 'zeroinitializer':
                return ('zero',)
            if v == 'none':
                return ('int', 0)
            if v in _CASTS:
                self.expect('(')
                st = self.type()
                sv = self.value(st)
                self.expect('to')
                dt = self.type()
                self.expect(')')
                return ('cexpr', v, st, sv, dt)
            if v == 'getelementptr':
                self.accept('inbounds')
                self.expect('(')
                bt = self.type()
                self.expect(',')
                ops = []
                while True:
                    self.accept('inrange')
                    ot = self.type()
                    ov = self.value(ot)
                    ops.append((ot, ov))
                    if not self.accept(','):
                        break
                self.expect(')')
                return ('cexpr', 'getelementptr', bt, ops)
            if v in _BINOPS:
                while self.peek()[1] in ('nuw', 'nsw', 'exact'):
                    self.next()
                self.expect('(')
                at = self.type()
                av = self.value(at)
                self.expect(',')
                bt = self.type()
                bv = self.value(bt)
                self.expect(')')
                return ('cexpr', v, at, av, bv)
            if v in ('icmp', 'fcmp'):
                pred = self.next()[1]
                self.expect('(')
                at = self.type()
                av = self.value(at)
                self.expect(',')
                bt = self.type()
                bv = self.value(bt)
                self.expect(')')
                return ('cexpr', v, pred, at, av, bv)
            if v == 'select':
                self.expect('(')
                ops = []
                while True:
                    ot = self.type()
                    ops.append((ot, self.value(ot)))
                    if not self.accept(','):
                        break
                self.expect(')')
                return ('cexpr', 'select', ops)
            if v == 'blockaddress':
                raise SyntaxError('blockaddress')
            raise SyntaxError('unknown value word %r' % v)
        if v == '{' or (v == '<' and self.peek()[1] == '{'):
            packed = False
            if v == '<':
                self.next()
                packed = True
            elems = []
            while not self.accept('}'):
                et = self.type()
                elems.append((et, self.value(et)))
                self.accept(',')
            if packed:
                self.expect('>')
            return ('agg', elems)
        if v == '[' or v == '<':
            close = ']' if v == '[' else '>'
            elems = []
            while not self.accept(close):
                et = self.type()
                elems.append((et, self.value(et)))
                self.accept(',')
            return ('agg', elems)
        raise SyntaxError('bad value %r %r' % (k, v))

    def typed_value(self):
        t = self.type()
        self._skip_param_attrs()
        return t, self.value(t)


def _parse_instr(line, mod):
    toks = tokenize(line)
    # drop trailing metadata attachments:  , !dbg !12
    for j, (k, v) in enumerate(toks):
        if k == 'meta' and j > 0 and toks[j - 1][1] == ',':
            toks = toks[:j - 1]
            break
    p = _P(toks, mod)
    dest = None
    if p.peek()[0] == 'local' and p.peek(1)[1] == '=':
        dest = _unq(p.next()[1])
        p.next()
    op = p.next()[1]
    I = lambda **kw: Instr(op, dest, text=line, **kw)
    if op == 'ret':
        t = p.type()
        if t == ('void',):
            return I(ty=t, args=[])
        return I(ty=t, args=[p.value(t)])
    if op == 'br':
        if p.accept('label'):
            return I(args=[_unq(p.next()[1])])
        t = p.type()
        c = p.value(t)
        p.expect(',')
        p.expect('label')
        a = _unq(p.next()[1])
        p.expect(',')
        p.expect('label')
        b = _unq(p.next()[1])
        return I(args=[c, a, b])
    if op == 'switch':
        t = p.type()
        v = p.value(t)
        p.expect(',')
        p.expect('label')
        d = _unq(p.next()[1])
        p.expect('[')
        cases = []
        while not p.accept(']'):
            ct = p.type()
            cv = p.value(ct)
            p.expect(',')
            p.expect('label')
            cases.append((cv[1], _unq(p.next()[1])))
        return I(ty=t, args=[v, d, cases])
    if op == 'unreachable':
        return I(args=[])
    if op in _BINOPS:
        flags = set()
        while p.peek()[1] in ('nuw', 'nsw', 'exact') or p.peek()[1] in _FASTMATH:
            flags.add(p.next()[1])
        t = p.type()
        a = p.value(t)
        p.expect(',')
        b = p.value(t)
        return I(ty=t, args=[a, b], extra=flags)
    if op == 'fneg':
        while p.peek()[1] in _FASTMATH:
            p.next()
        t = p.type()
        return I(ty=t, args=[p.value(t)])
    if op in ('icmp', 'fcmp'):
        while p.peek()[1] in _FASTMATH:
            p.next()
        pred = p.next()[1]
        t = p.type()
        a = p.value(t)
        p.expect(',')
        b = p.value(t)
        return I(ty=t, args=[a, b], extra=pred)
    if op == 'select':
        while p.peek()[1] in _FASTMATH:
            p.next()
        ct, c = p.typed_value()
        p.expect(',')
        at, a = p.typed_value()
        p.expect(',')
        bt, b = p.typed_value()
        return I(ty=at, args=[c, a, b])
    if op in _CASTS:
        st = p.type()
        v = p.value(st)
        p.expect('to')
        dt = p.type()
        return I(ty=dt, args=[v], extra=st)
    if op == 'alloca':
        p.accept('inalloca')
        t = p.type()
        n = ('int', 1)
        nt = ('int', 32)
        align = None
        while p.accept(','):
            if p.accept('align'):
                align = int(p.next()[1])
            elif p.peek()[1] == 'addrspace':
                break
            else:
                nt = p.type()
                n = p.value(nt)
        return I(ty=t, args=[n], extra=(nt, align))
    if op == 'load':
        atomic = p.accept('atomic')
        vol = p.accept('volatile')
        t = p.type()
        p.expect(',')
        pt = p.type()
        a = p.value(pt)
        return I(ty=t, args=[a], extra={'atomic': atomic, 'volatile': vol})
    if op == 'store':
        atomic = p.accept('atomic')
        vol = p.accept('volatile')
        t = p.type()
        v = p.value(t)
        p.expect(',')
        pt = p.type()
        a = p.value(pt)
        return I(ty=t, args=[v, a], extra={'atomic': atomic, 'volatile': vol})
    if op == 'getelementptr':
        p.accept('inbounds')
        bt = p.type()
        p.expect(',')
        pt = p.type()
        base = p.value(pt)
        idx = []
        while p.accept(','):
            it = p.type()
            idx.append((it, p.value(it)))
        return I(ty=bt, args=[base, idx])
    if op == 'phi':
        while p.peek()[1] in _FASTMATH:
            p.next()
        t = p.type()
        inc = []
        while True:
            p.expect('[')
            v = p.value(t)
            p.expect(',')
            lbl = _unq(p.next()[1])
            p.expect(']')
            inc.append((v, lbl))
            if not p.accept(','):
                break
        return I(ty=t, args=inc)
    if op in ('call', 'tail', 'musttail', 'notail'):
        if op != 'call':
            p.expect('call')
            op = 'call'
        while p.peek()[1] in _FASTMATH or p.peek()[1] in _CCONV:
            p.next()
        p._skip_param_attrs()
        rt = p.type()
        # rt may be a full function type (for varargs) -> then it's ('ptr', ('func',...)) or ('func',...)
        fnty = None
        if rt[0] == 'func':
            fnty = rt
            rt = rt[1]
        elif rt[0] == 'ptr' and rt[1][0] == 'func' and p.peek()[1] != '(':
            # "call i32 (i8*, ...)* @f(...)": type() consumed the pointer-to-function type
            fnty = rt[1]
            rt = fnty[1]
        callee = p.value(('ptr', ('int', 8)))
        p.expect('(')
        args = []
        while not p.accept(')'):
            at = p.type()
            p._skip_param_attrs()
            if at == ('metadata',):
                # metadata argument (llvm.dbg.*): skip to matching ',' or ')'
                depth = 0
                while True:
                    k2, v2 = p.peek()
                    if depth == 0 and v2 in (',', ')'):
                        break
                    if v2 in ('(', '[', '{'):
                        depth += 1
                    if v2 in (')', ']', '}'):
                        depth -= 1
                    p.next()
                args.append((at, ('undef',)))
            else:
                args.append((at, p.value(at)))
            p.accept(',')
        return Instr('call', dest, ty=rt, args=[callee, args], extra=fnty, text=line)
    if op == 'extractvalue':
        t = p.type()
        v = p.value(t)
        idx = []
        while p.accept(','):
            idx.append(int(p.next()[1]))
        return I(ty=t, args=[v, idx])
    if op == 'insertvalue':
        t = p.type()
        v = p.value(t)
        p.expect(',')
        et = p.type()
        e = p.value(et)
        idx = []
        while p.accept(','):
            idx.append(int(p.next()[1]))
        return I(ty=t, args=[v, e, idx], extra=et)
    if op == 'cmpxchg':
        p.accept('weak')
        p.accept('volatile')
        pt = p.type()
        ptr = p.value(pt)
        p.expect(',')
        t = p.type()
        cmp_ = p.value(t)
        p.expect(',')
        t2 = p.type()
        new = p.value(t2)
        return I(ty=t, args=[ptr, cmp_, new])
    if op == 'atomicrmw':
        p.accept('volatile')
        which = p.next()[1]
        pt = p.type()
        ptr = p.value(pt)
        p.expect(',')
        t = p.type()
        v = p.value(t)
        return I(ty=t, args=[ptr, v], extra=which)
    if op == 'fence':
        return I(args=[])
    if op == 'freeze':
        t = p.type()
        return I(ty=t, args=[p.value(t)])
    return Instr('unsupported', dest, text=line, extra=op)


_DEF = re.compile(r'^(define|declare)\b')


def _parse_header(line, mod):
    toks = tokenize(line)
    p = _P(toks, mod)
    kind = p.next()[1]
    while True:
        k, v = p.peek()
        if k == 'word' and (v in _LINKAGE or v in _CCONV or v in _PARAM_ATTRS):
            p.next()
        elif k == 'word' and v in ('align', 'dereferenceable', 'dereferenceable_or_null'):
            p._skip_param_attrs()
        else:
            break
    p._skip_param_attrs()
    ret = p.type()
    name = _unq(p.next()[1])
    p.expect('(')
    params = []
    vararg = False
    n_unnamed = 0
    while not p.accept(')'):
        if p.accept('...'):
            vararg = True
        else:
            t = p.type()
            p._skip_param_attrs()
            pname = None
            if p.peek()[0] == 'local':
                pname = _unq(p.next()[1])
            params.append((t, pname))
        p.accept(',')
    f = Function(name, ret, params, vararg)
    return f


def parse_module(path):
    mod = Module()
    mod.path = path
    mod._cache = {}
    lines = open(path).read().split('\n')
    i = 0
    n = len(lines)
    while i < n:
        line = lines[i]
        i += 1
        if not line or line[0] == ';':
            continue
        if line.startswith('target datalayout'):
            mod.datalayout = line.split('"')[1]
            continue
        if line[0] == '%' and ' = type ' in line:
            name, rest = line.split(' = type ', 1)
            p = _P(tokenize(rest), mod)
            mod.types[_unq(name.strip())] = p.type()
            continue
        if line[0] == '@':
            _parse_global(line, mod)
            continue
        if line.startswith('declare'):
            f = _parse_header(line, mod)
            mod.functions.setdefault(f.name, f)
            continue
        if line.startswith('define'):
            f = _parse_header(line, mod)
            f.declared_only = False
            f.line = i
            # number unnamed params
            cnt = 0
            ps = []
            for t, pn in f.params:
                if pn is None:
                    pn = str(cnt)
                    cnt += 1
                elif pn.isdigit():
                    cnt = int(pn) + 1
                ps.append((t, pn))
            f.params = ps
            cur = str(cnt)
            f.entry = cur
            f.blocks[cur] = []
            f.order.append(cur)
            while i < n:
                line = lines[i]
                i += 1
                if line == '}':
                    break
                if not line.strip():
                    continue
                m = re.match(r'^([-a-zA-Z$._0-9]+|"[^"]*"):', line)
                if m:
                    cur = m.group(1).strip('"')
                    if cur not in f.blocks:
                        f.blocks[cur] = []
                        f.order.append(cur)
                    continue
                s = line.strip()
                if s.startswith(';'):
                    continue
                if (s.startswith('switch ') or ' switch ' in s) and s.endswith('['):
                    while not lines[i].strip().startswith(']'):
                        s += ' ' + lines[i].strip()
                        i += 1
                    s += ' ]'
                    i += 1
                try:
                    ins = _parse_instr(s, mod)
                except (SyntaxError, ValueError, IndexError) as e:
                    ins = Instr('unsupported', None, text=s, extra='parse error: %s' % e)
                f.blocks[cur].append(ins)
            if not f.blocks[f.entry] and len(f.order) > 1:
                # named entry block
                del f.blocks[f.entry]
                f.order.pop(0)
                f.entry = f.order[0]
            mod.functions[f.name] = f
            continue
    return mod


def _parse_global(line, mod):
    # @name = [linkage...] [thread_local] [unnamed_addr] (global|constant) type [init] [, section ...][, align n]
    try:
        toks = tokenize(line)
    except SyntaxError:
        return
    p = _P(toks, mod)
    name = _unq(p.next()[1])
    p.expect('=')
    external = False
    thread_local = False
    linkage = []
    while True:
        k, v = p.peek()
        if v == 'thread_local':
            p.next()
            thread_local = True
            if p.accept('('):
                p.next()
                p.expect(')')
        elif k == 'word' and v in _LINKAGE:
            if v in ('external', 'extern_weak'):
                external = True
            linkage.append(v)
            p.next()
        elif v == 'addrspace':
            p.next()
            p.expect('(')
            p.next()
            p.expect(')')
        else:
            break
    kind = p.next()[1]
    if kind == 'alias' or kind == 'ifunc':
        return
    constant = (kind == 'constant')
    try:
        ty = p.type()
        init = None
        if not external and not p.at_end() and p.peek()[1] != ',':
            init = p.value(ty)
    except SyntaxError as e:
        init = ('unparsed', str(e))
        ty = ty if 'ty' in locals() else ('int', 8)
    mod.globals[name] = Global(name, ty, init, constant, external and init is None, thread_local, linkage)
