"""CrossHair runner (DESIGN.md 2.3).

A harness is a Python module text defining functions `prop_*` with PEP316 contracts that
return True iff the property holds for their (symbolic) arguments.  Each function is checked
in its own process with `crosshair check --report_all --per_condition_timeout T`.
Verdicts:  'confirmed'  (Confirmed over all paths)         -> obligation discharged
           'counterexample' (false when calling ...)        -> replayed in plain Python
           'unknown' (Not confirmed / Unable to meet precondition / timeout) -> inconclusive
Counterexamples are believed only if calling the function with the reported arguments in
plain CPython (no CrossHair) against the real code really returns False / raises."""
import os, re, subprocess, sys, time, json, textwrap
from . import common

CROSSHAIR = os.path.join(common.VERIF, '.venv', 'bin', 'crosshair')
PY = os.path.join(common.VERIF, '.venv', 'bin', 'python')


def write_module(name, text):
    d = os.path.join(common.scratch_dir(), 'xh')
    os.makedirs(d, exist_ok=True)
    p = os.path.join(d, name + '.py')
    with open(p, 'w') as f:
        f.write(text)
    return p


def _find_lines(path):
    out = {}
    for i, l in enumerate(open(path), 1):
        m = re.match(r'def (prop_\w+)\(', l)
        if m:
            out[m.group(1)] = i
    return out


def run_one(path, func, line, timeout_s, env_extra=None):
    env = dict(os.environ)
    env['PYTHONPATH'] = os.pathsep.join([os.path.dirname(path), os.path.join(common.REPO, 'src'), common.VERIF])
    env['PYTHONHASHSEED'] = '0'
    if env_extra:
        env.update(env_extra)
    cmd = [CROSSHAIR, 'check', '--report_all', '--per_condition_timeout', str(timeout_s),
           '--per_path_timeout', str(max(5, timeout_s // 4)), '%s:%d' % (path, line + 1)]
    t = time.time()
    try:
        r = subprocess.run(cmd, env=env, stdout=subprocess.PIPE, stderr=subprocess.STDOUT,
                           timeout=timeout_s * 3 + 60)
        out = r.stdout.decode('utf-8', 'replace')
    except subprocess.TimeoutExpired as e:
        out = (e.stdout or b'').decode('utf-8', 'replace') + '\nTIMEOUT'
    dt = time.time() - t
    return out, dt


def classify(out):
    """-> (verdict, detail)"""
    for l in out.splitlines():
        if 'error:' in l and ('false when calling' in l or 'when calling' in l):
            m = re.search(r'when calling (.*?)(?: \(which returns (.*)\))?$', l.strip())
            return 'counterexample', (m.group(1) if m else l.strip(), l.strip())
    for l in out.splitlines():
        if 'Confirmed over all paths' in l:
            return 'confirmed', l.strip()
    for l in out.splitlines():
        if 'Not confirmed' in l or 'Unable to meet precondition' in l:
            return 'unknown', l.strip()
    return 'unknown', out.strip()[-300:]


REPLAY_TMPL = '''
# Replay of a CrossHair counterexample in plain CPython against the code on PYTHONPATH.
# Exits 1 iff the harness function reports a violation (returns False or raises).
import sys
sys.path.insert(0, %(dir)r)
import %(mod)s as H
call = %(call)r
try:
    r = eval(call, vars(H))
except BaseException as e:
    print('VIOLATED:', call, 'raised', type(e).__name__, e)
    sys.exit(1)
if r is not True:
    print('VIOLATED:', call, 'returned', r)
    sys.exit(1)
sys.exit(0)
'''


HEADER = """
_EXCL = %r


def _ok(name, *args):
    \"\"\"False for inputs that were already checked concretely (CrossHair reported them as
    counterexamples but they did not reproduce in plain CPython: artefacts of its models).\"\"\"
    return list(args) not in _EXCL.get(name, [])

"""


def _call_args(call):
    import ast
    try:
        node = ast.parse(call, mode='eval').body
        return [ast.literal_eval(a) for a in node.args]
    except Exception:
        return None


def check_module(chk, name, text, funcs=None, timeout_s=30, procs=None, known_tags=None, max_rounds=6):
    """Run every prop_* function of the module; record queries in chk.
    known_tags: callable(func, call_text) -> dict of tags for known-finding matching.
    Module texts may use `pre: _ok('prop_x', arg, ...)`: a counterexample that does not
    reproduce in plain CPython is excluded through it and the function is checked again."""
    import concurrent.futures as cf
    excl = {}
    lines = None
    todo = None
    allres = {}
    for rnd in range(max_rounds):
        full = HEADER % (excl,) + text
        path = write_module(name, full)
        lines = _find_lines(path)
        if todo is None:
            todo = [f for f in lines if funcs is None or f in funcs]
        if not todo:
            break
        procs_ = procs or min(len(todo), int(os.environ.get('VERIF_PROCS', '12')))
        results = {}
        with cf.ThreadPoolExecutor(max_workers=max(procs_, 1)) as pool:
            futs = {pool.submit(run_one, path, f, lines[f], timeout_s): f for f in todo}
            for fu in cf.as_completed(futs):
                results[futs[fu]] = fu.result()
        again = []
        for f in todo:
            out, dt = results[f]
            allres[f] = (out, dt)
            verdict, detail = classify(out)
            qname = '%s.%s' % (name, f)
            if verdict == 'confirmed':
                chk.query(qname, 'confirmed', dt)
                chk.witness(qname)
            elif verdict == 'counterexample':
                call, line = detail
                rdir = common.REPLAY_DIR
                os.makedirs(rdir, exist_ok=True)
                modname = 'xh_%s_%s' % (chk.prop, name)
                with open(os.path.join(rdir, modname + '.py'), 'w') as fh:
                    fh.write(HEADER % ({},) + text)
                body = REPLAY_TMPL % {'dir': rdir, 'mod': modname, 'call': call}
                script = chk.write_replay('%s-%s' % (name, f), body)
                env = dict(os.environ)
                env['PYTHONPATH'] = os.pathsep.join([os.path.join(common.REPO, 'src'), common.VERIF])
                r = subprocess.run([PY, script], env=env, stdout=subprocess.PIPE, stderr=subprocess.STDOUT,
                                   timeout=300)
                try:
                    ok = common.replay_verdict(r.returncode, r.stdout.decode('utf-8', 'replace'))
                except common.HarnessError as e:
                    chk.query(qname, 'unknown', dt, detail=call[:300])
                    chk.inconc('%s: %s' % (qname, str(e)[-300:]))
                    continue
                if not ok:
                    args = _call_args(call)
                    if args is not None and ("_ok('%s'" % f) in text and rnd + 1 < max_rounds:
                        excl.setdefault(f, []).append(args)
                        chk.extra.setdefault('crosshair_artefacts_checked_concretely', []).append(call)
                        again.append(f)
                        continue
                    chk.query(qname, 'unknown', dt, detail=call[:300])
                    chk.inconc('%s: CrossHair counterexample %s does not reproduce in plain CPython' % (qname, call))
                    continue
                chk.query(qname, 'sat', dt, detail=call[:300])
                tags = known_tags(f, call) if known_tags else {}
                chk.report_failure('%s: %s' % (qname, call), tags, script, True)
            else:
                chk.query(qname, 'unknown', dt, detail=str(detail)[:300])
                chk.inconc('%s: CrossHair %s' % (qname, str(detail)[:200]))
        todo = again
    return allres
