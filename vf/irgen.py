"""IR production: compile cffi's C sources from /repo's working tree to LLVM IR (per run)."""
import os, subprocess, sys, re, json, hashlib, sysconfig
from . import common, llparse

CLANG = 'clang'
OPT = 'opt'
PASSES = 'mem2reg,sroa,instsimplify,simplifycfg'


def setup_py_config():
    """Run /repo/setup.py with setuptools.setup replaced by a recorder: gives the real
    define_macros / include_dirs the extension is built with (incl. the USE__THREAD probe)."""
    code = r'''
import sys, os, json
os.chdir(%r)
sys.argv = ['setup.py', 'build_ext']
import setuptools
rec = {}
def fake_setup(**kw):
    ext = kw.get('ext_modules') or []
    for e in ext:
        rec['define_macros'] = e.define_macros
        rec['include_dirs'] = e.include_dirs
        rec['sources'] = e.sources
setuptools.setup = fake_setup
try:
    import distutils.core; distutils.core.setup = fake_setup
except Exception: pass
src = open('setup.py').read()
g = {'__name__': '__main__', '__file__': 'setup.py'}
exec(compile(src, 'setup.py', 'exec'), g)
print('@@' + json.dumps(rec))
''' % common.REPO
    r = subprocess.run(['/venv/bin/python', '-c', code], stdout=subprocess.PIPE, stderr=subprocess.PIPE,
                       cwd=common.scratch_dir())
    for line in r.stdout.decode().splitlines():
        if line.startswith('@@'):
            rec = json.loads(line[2:])
            if rec:
                return rec
    # fall back to what setup.py computes on this platform
    return {'define_macros': [['FFI_BUILDING', '1'], ['USE__THREAD', None], ['HAVE_SYNC_SYNCHRONIZE', None]],
            'include_dirs': ['/usr/include/ffi'], 'sources': ['src/c/_cffi_backend.c']}


_cfg = None


def cflags():
    global _cfg
    if _cfg is None:
        _cfg = setup_py_config()
    fl = ['-O0', '-Xclang', '-disable-O0-optnone', '-fno-strict-overflow', '-DNDEBUG', '-w']
    for k, v in _cfg['define_macros']:
        fl.append('-D%s' % k if v is None else '-D%s=%s' % (k, v))
    pyinc = subprocess.run(['/venv/bin/python', '-c',
                            "import sysconfig;print(sysconfig.get_paths()['include'])"],
                           stdout=subprocess.PIPE).stdout.decode().strip()
    fl.append('-I' + pyinc)
    for d in _cfg['include_dirs']:
        fl.append('-I' + d)
    fl.append('-I/usr/include/x86_64-linux-gnu')
    return fl


def _rename_internal(ll_path, suffix):
    """append `suffix` to every symbol with internal/private linkage (two generated modules define the same static
    names; the executor's symbol table is flat)"""
    import re
    text = open(ll_path).read()
    names = set(re.findall(r'^@([-a-zA-Z$._0-9]+) = (?:internal|private) ', text, re.M))
    names.update(re.findall(r'^define (?:internal|private) [^@\n]*@([-a-zA-Z$._0-9]+)\(', text, re.M))
    def sub(m):
        n = m.group(1)
        return '@' + n + suffix if n in names else m.group(0)
    text = re.sub(r'@([-a-zA-Z$._0-9]+)', sub, text)
    open(ll_path, 'w').write(text)


def compile_ir(src, name=None, extra_flags=(), passes=PASSES, rename_internal=None):
    """C file -> parsed Module (and path of the .ll)"""
    sd = common.scratch_dir()
    name = name or os.path.splitext(os.path.basename(src))[0]
    # per-process file names: forked workers share the parent's scratch directory
    ll0 = os.path.join(sd, '%s.%d.0.ll' % (name, os.getpid()))
    ll = os.path.join(sd, '%s.%d.ll' % (name, os.getpid()))
    cmd = [CLANG] + cflags() + list(extra_flags) + ['-S', '-emit-llvm', src, '-o', ll0]
    r = subprocess.run(cmd, stdout=subprocess.PIPE, stderr=subprocess.STDOUT)
    if r.returncode != 0:
        raise common.Inconclusive('clang failed on %s:\n%s' % (src, r.stdout.decode()[-3000:]))
    r = subprocess.run([OPT, '-S', '-passes=' + passes, ll0, '-o', ll], stdout=subprocess.PIPE,
                       stderr=subprocess.STDOUT)
    if r.returncode != 0:
        raise common.Inconclusive('opt failed on %s:\n%s' % (ll0, r.stdout.decode()[-3000:]))
    if rename_internal:
        _rename_internal(ll, rename_internal)
    mod = llparse.parse_module(ll)
    mod.source = src
    return mod


_backend = None


def backend():
    """The IR of src/c/_cffi_backend.c (which #includes all other src/c files)."""
    global _backend
    if _backend is None:
        _backend = compile_ir(os.path.join(common.REPO, 'src/c/_cffi_backend.c'), 'backend')
        check_layout(_backend)
    return _backend


def parse_c_type_module():
    """parse_c_type.c is #included by _cffi_backend.c: its functions are in the backend IR."""
    return backend()


def check_layout(mod):
    """Self-check of llparse's struct layout rules against LLVM's own constant folder."""
    sd = common.scratch_dir()
    names = [n for n, t in mod.types.items() if t[0] == 'struct' and t[1]]
    lines = ['target datalayout = "%s"' % mod.datalayout]
    src = open(mod.path).read()
    for l in src.split('\n'):
        if l.startswith('%') and ' = type ' in l:
            lines.append(l)
    items = []
    for n in names:
        t = mod.types[n]
        q = '%%"%s"' % n if not re.match(r'^[-a-zA-Z$._0-9]+$', n) else '%' + n
        for k in range(len(t[1])):
            g = '@o_%d' % len(items)
            lines.append('%s = global i64 ptrtoint (%s* getelementptr (%s, %s* null, i32 0, i32 %d) to i64)'
                         % (g, _tyname(t[1][k]), q, q, k))
            items.append((n, k))
        g = '@o_%d' % len(items)
        lines.append('%s = global i64 ptrtoint (%s* getelementptr (%s, %s* null, i32 1) to i64)' % (g, q, q, q))
        items.append((n, 'size'))
    p = os.path.join(sd, 'layout.%d.ll' % os.getpid())
    open(p, 'w').write('\n'.join(lines) + '\n')
    r = subprocess.run([OPT, '-S', '-O1', p, '-o', p + '.out'], stdout=subprocess.PIPE, stderr=subprocess.STDOUT)
    if r.returncode != 0:
        raise common.Inconclusive('layout self-check: opt failed: ' + r.stdout.decode()[-2000:])
    got = {}
    for l in open(p + '.out'):
        m = re.match(r'@o_(\d+) = .*global i64 (\d+)', l)
        if m:
            got[int(m.group(1))] = int(m.group(2))
    bad = 0
    for i, (n, k) in enumerate(items):
        offs, size, align = mod.struct_layout(('named', n))
        mine = size if k == 'size' else offs[k]
        if i not in got or got[i] != mine:
            bad += 1
            if bad < 5:
                sys.stderr.write('layout mismatch %s.%s: mine %s llvm %s\n' % (n, k, mine, got.get(i)))
    if bad:
        raise common.HarnessError('llparse struct layout disagrees with LLVM on %d items' % bad)
    mod.layout_checked = len(items)
    return len(items)


def _tyname(t):
    k = t[0]
    if k == 'int':
        return 'i%d' % t[1]
    if k == 'ptr':
        return _tyname(t[1]) + '*'
    if k == 'named':
        n = t[1]
        return '%%"%s"' % n if not re.match(r'^[-a-zA-Z$._0-9]+$', n) else '%' + n
    if k == 'float':
        return 'float'
    if k == 'double':
        return 'double'
    if k == 'fp80':
        return 'x86_fp80'
    if k == 'void':
        return 'void'
    if k == 'array':
        return '[%d x %s]' % (t[1], _tyname(t[2]))
    if k == 'vector':
        return '<%d x %s>' % (t[1], _tyname(t[2]))
    if k == 'struct':
        inner = ', '.join(_tyname(f) for f in t[1])
        return ('<{ %s }>' if t[2] else '{ %s }') % inner
    if k == 'func':
        ps = [_tyname(p) for p in t[2]]
        if t[3]:
            ps.append('...')
        return '%s (%s)' % (_tyname(t[1]), ', '.join(ps))
    if k == 'opaque':
        return 'opaque'
    raise ValueError(t)


def func_info(mod, names):
    """evidence records for functions: file/line span are looked up in the C sources"""
    out = []
    for n in names:
        f = mod.functions.get(n)
        if f is None or f.declared_only:
            continue
        out.append({'name': n, 'ir_instructions': f.n_instr(), 'module': os.path.basename(getattr(mod, 'source', ''))})
    return out


def offsets(mod, struct):
    offs, size, align = mod.struct_layout(('named', struct))
    return offs
