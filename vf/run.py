"""Driver: vf/run.py <ID> [--tier quick|thorough]"""
import sys, os, importlib, traceback, time
sys.path.insert(0, os.path.dirname(os.path.dirname(os.path.abspath(__file__))))
sys.setrecursionlimit(20000)
from vf import common


def main(argv):
    if not argv:
        print('usage: check <ID> [--tier quick|thorough]')
        return 2
    prop = argv[0]
    tier = os.environ.get('VERIF_TIER') or 'quick'
    if '--tier' in argv:
        tier = argv[argv.index('--tier') + 1]
    if tier not in ('quick', 'thorough'):
        tier = 'quick'
    mod = importlib.import_module('harness.' + prop)
    chk = common.Check(prop, tier, getattr(mod, 'LEVEL', 'model_checking'))
    try:
        mod.run(chk)
    except common.Inconclusive as e:
        chk.inconc(str(e))
    except common.HarnessError as e:
        chk.harness_error(str(e))
    except Exception as e:
        traceback.print_exc()
        chk.inconc('harness crashed: %s: %s' % (type(e).__name__, e))
    return chk.finish()


if __name__ == '__main__':
    sys.exit(main(sys.argv[1:]))
