"""Generate /verif/MANIFEST.json from vf/registry.py + the harness files present."""
import json, os, sys
sys.path.insert(0, os.path.dirname(os.path.dirname(os.path.abspath(__file__))))
from vf import registry

V = os.path.dirname(os.path.dirname(os.path.abspath(__file__)))
props = [json.loads(l) for l in open(os.path.join(V, 'properties.jsonl'))]
checks, na = [], []
for p in props:
    pid = p['id']
    have = os.path.exists(os.path.join(V, 'harness', pid + '.py')) and pid in registry.CHECKS
    if have:
        c = registry.CHECKS[pid]
        checks.append({
            'property_id': pid,
            'quick_cmd': 'bin/check %s --tier quick' % pid,
            'thorough_cmd': 'bin/check %s --tier thorough' % pid,
            'evidence_file': 'evidence/%s.json' % pid,
            'replay_cmd_template': '/venv/bin/python {path}',
            'engine': c['engine'],
            'level_claimed': {'category': c.get('category', 'model_checking'), 'text': c['text'],
                              'design_ref': 'DESIGN.md section 4, ' + pid},
            'level_note': c['note'],
            'technique': c['technique'],
        })
    else:
        na.append({'property_id': pid,
                   'reason': registry.NOT_APPLICABLE.get(pid, registry.PENDING_REASON)})
man = {
    'version': 1,
    'setup_cmd': 'bin/setup.sh',
    'hooks': {
        'guard': 'PYTHON_CFFI_CFFI_VERIF',
        'enable': 'no source hooks are needed: static C functions are reached through the LLVM IR that '
                  'each check regenerates from /repo with clang, Python functions are imported directly',
        'baseline_off_cmd': 'cd /repo && /venv/bin/python -m pytest -ra -q -p no:cacheprovider --timeout=900 '
                            '--continue-on-collection-errors',
        'source_commits': [],
        'add_only': True,
    },
    'engines': [
        {'name': 'llsym', 'path': 'vf/llsym.py',
         'serves_properties': sorted(k for k, c in registry.CHECKS.items() if 'llsym' in c['engine']),
         'kind_free_text': 'bounded symbolic executor for the LLVM IR that clang emits for src/c/*.c; '
                           'path conditions and obligations discharged by z3'},
        {'name': 'pysym', 'path': 'vf/pysym.py',
         'serves_properties': sorted(k for k, c in registry.CHECKS.items() if 'pysym' in c['engine']),
         'kind_free_text': 'proxy symbolic execution of the real Python functions of src/cffi: symbolic ints (vf/pysym.py), symbolic '
                           'strings and NFA-simulated regexes (vf/symstr.py); every branch decided by z3, paths explored by re-execution'},
    ],
    'checks': checks,
    'not_applicable': na,
    'notes': 'Solver-based checking of the real code; see DESIGN.md. Exit codes: 0 held, 1 VIOLATION, '
             '2 inconclusive, 3 harness error. known_findings.jsonl lists recorded genuine defects.',
}
json.dump(man, open(os.path.join(V, 'MANIFEST.json'), 'w'), indent=1)
print('checks:', [c['property_id'] for c in checks])
print('n/a   :', [c['property_id'] for c in na])
try:
    import jsonschema
    jsonschema.validate(man, json.load(open('/root/.vp/MANIFEST.schema.json')))
    print('MANIFEST.json validates')
except ImportError:
    pass
