"""SymStr -- proxy for Python `str` with a concrete length and symbolic characters.

Used by pysym harnesses to run the real string-handling code of src/cffi on "every string of
length n" (one exploration per n): each character is a z3 bit-vector (code point), every
decision the code takes on the content (comparisons, startswith, find, strip, int(), regular
expressions) becomes a solver-guided fork of the same decision-tree explorer as llsym.

Domain: ASCII (code points 0..127) unless the harness says otherwise -- case mapping,
isspace/isdigit and int() are modelled for ASCII only and assert that domain.
repr()/str()/'%' formatting of a SymStr yield a placeholder: message formatting is never the
subject of a property (stated in each harness' assumptions).
"""
import z3
from . import llsym
from .pysym import SymBool, SymInt

CW = 32
WS = (9, 10, 11, 12, 13, 28, 29, 30, 31, 32)


def _c(x):
    return z3.BitVecVal(x, CW)


class SymStr(object):
    def __init__(self, ex, chars):
        self.ex = ex
        self.chars = list(chars)      # python ints or z3 BV(CW)

    # ---- construction helpers -------------------------------------------------
    @staticmethod
    def fresh(ex, name, n, ascii_only=True, exclude=()):
        cs = []
        for i in range(n):
            c = z3.BitVec('%s[%d]' % (name, i), CW)
            ex.add_definition(z3.ULT(c, 128 if ascii_only else 0x110000))
            for x in exclude:
                ex.add_definition(c != ord(x))
            cs.append(c)
        return SymStr(ex, cs)

    def _lift(self, o):
        if isinstance(o, SymStr):
            return o.chars
        if isinstance(o, str):
            return [ord(ch) for ch in o]
        return None

    def _mk(self, chars):
        chars = list(chars)
        if all(isinstance(c, int) for c in chars):
            return ''.join(chr(c) for c in chars)
        return SymStr(self.ex, chars)

    @staticmethod
    def _ceq(a, b):
        if isinstance(a, int) and isinstance(b, int):
            return a == b
        return llsym.bv(a, CW) == llsym.bv(b, CW)

    def concrete(self, model):
        out = []
        for c in self.chars:
            out.append(chr(c if isinstance(c, int) else model.eval(c, model_completion=True).as_long()))
        return ''.join(out)

    # ---- basic protocol ----------------------------------------------------------
    def __len__(self):
        return len(self.chars)

    def __iter__(self):
        for c in self.chars:
            yield self._mk([c])

    def __getitem__(self, i):
        if isinstance(i, slice):
            return self._mk(self.chars[i])
        if isinstance(i, SymInt):
            raise llsym.Unsupported('symbolic index into SymStr')
        return self._mk([self.chars[i]])

    def __bool__(self):
        return len(self.chars) > 0

    def __repr__(self):
        return '<symbolic str of length %d>' % len(self.chars)

    __str__ = __repr__

    def __format__(self, spec):
        return repr(self)

    def __hash__(self):
        # used as dict key / set member: fork over the feasible concrete values (short strings only)
        if len(self.chars) > 2:
            raise llsym.Unsupported('hash() of a symbolic str longer than 2 (dict key / set member)')
        out = []
        for c in self.chars:
            out.append(c if isinstance(c, int) else self.ex.concretize(c, CW, 300, 'character used as dict key'))
        return hash(''.join(chr(c) for c in out))

    def __add__(self, o):
        b = self._lift(o)
        if b is None:
            return NotImplemented
        return self._mk(self.chars + b)

    def __radd__(self, o):
        b = self._lift(o)
        if b is None:
            return NotImplemented
        return self._mk(b + self.chars)

    def __mul__(self, n):
        return self._mk(self.chars * n)

    def __mod__(self, args):
        return repr(self)

    def __contains__(self, sub):
        return self.find(sub) >= 0

    # ---- comparisons ---------------------------------------------------------------
    def _eq_term(self, o):
        b = self._lift(o)
        if b is None:
            return None
        if len(b) != len(self.chars):
            return False
        return llsym.b_and(*[self._ceq(x, y) for x, y in zip(self.chars, b)])

    def __eq__(self, o):
        t = self._eq_term(o)
        if t is None:
            return False
        if t is True or t is False:
            return t
        return SymBool(self.ex, t)

    def __ne__(self, o):
        t = self._eq_term(o)
        if t is None:
            return True
        if t is True or t is False:
            return not t
        return SymBool(self.ex, z3.Not(t))

    def _lt_term(self, a, b, or_equal):
        # lexicographic comparison of code-point lists
        res = or_equal if len(a) == len(b) else (len(a) < len(b))
        n = min(len(a), len(b))
        for i in range(n - 1, -1, -1):
            x, y = llsym.bv(a[i], CW), llsym.bv(b[i], CW)
            res = z3.If(z3.ULT(x, y), True, z3.If(x == y, res, False)) if not isinstance(res, bool) else \
                z3.If(z3.ULT(x, y), z3.BoolVal(True), z3.If(x == y, z3.BoolVal(res), z3.BoolVal(False)))
        return res

    def _cmp(self, o, swap, or_equal):
        b = self._lift(o)
        if b is None:
            return NotImplemented
        a = self.chars
        if swap:
            a, b = b, a
        t = self._lt_term(a, b, or_equal)
        if isinstance(t, bool):
            return t
        return SymBool(self.ex, t)

    def __lt__(self, o):
        return self._cmp(o, False, False)

    def __le__(self, o):
        return self._cmp(o, False, True)

    def __gt__(self, o):
        return self._cmp(o, True, False)

    def __ge__(self, o):
        return self._cmp(o, True, True)

    # ---- searching --------------------------------------------------------------------
    def _match_at(self, i, pat):
        if i < 0 or i + len(pat) > len(self.chars):
            return False
        return llsym.b_and(*[self._ceq(self.chars[i + k], pat[k]) for k in range(len(pat))])

    def startswith(self, prefix, start=0):
        if isinstance(prefix, tuple):
            for p in prefix:
                if self.startswith(p, start):
                    return True
            return False
        pat = self._lift(prefix)
        return self.ex.decide(self._match_at(start, pat))

    def endswith(self, suffix):
        if isinstance(suffix, tuple):
            for p in suffix:
                if self.endswith(p):
                    return True
            return False
        pat = self._lift(suffix)
        return self.ex.decide(self._match_at(len(self.chars) - len(pat), pat))

    def find(self, sub, start=0, end=None):
        pat = self._lift(sub)
        n = len(self.chars) if end is None else min(end, len(self.chars))
        for i in range(max(start, 0), n - len(pat) + 1):
            if self.ex.decide(self._match_at(i, pat)):
                return i
        return -1

    def splitlines(self, keepends=False):
        if keepends:
            raise llsym.Unsupported('splitlines(keepends=True)')
        out, cur = [], []
        chars = self.chars
        i, n = 0, len(chars)
        while i < n:
            c = chars[i]
            if self._in_set(c, (10, 11, 12, 13, 0x1c, 0x1d, 0x1e, 0x85)):
                # '\r\n' counts as one line break
                if self._in_set(c, (13,)) and i + 1 < n and self._in_set(chars[i + 1], (10,)):
                    i += 1
                out.append(self._mk(cur))
                cur = []
            else:
                cur.append(c)
            i += 1
        if cur:
            out.append(self._mk(cur))
        return out

    def rfind(self, sub):
        pat = self._lift(sub)
        for i in range(len(self.chars) - len(pat), -1, -1):
            if self.ex.decide(self._match_at(i, pat)):
                return i
        return -1

    def index(self, sub, start=0):
        i = self.find(sub, start)
        if i < 0:
            raise ValueError('substring not found')
        return i

    def count(self, sub):
        pat = self._lift(sub)
        n, i = 0, 0
        while i <= len(self.chars) - len(pat):
            if self.ex.decide(self._match_at(i, pat)):
                n += 1
                i += max(len(pat), 1)
            else:
                i += 1
        return n

    def partition(self, sep):
        i = self.find(sep)
        if i < 0:
            return (self, '', '')
        return (self[:i], sep, self[i + len(sep):])

    def split(self, sep=None, maxsplit=-1):
        if sep is None:
            out, cur = [], []
            for c in self.chars:
                if self._is_ws(c):
                    if cur:
                        out.append(self._mk(cur))
                        cur = []
                        if maxsplit >= 0 and len(out) >= maxsplit:
                            raise llsym.Unsupported('split() with maxsplit on whitespace')
                else:
                    cur.append(c)
            if cur:
                out.append(self._mk(cur))
            return out
        out = []
        rest = self
        while maxsplit < 0 or len(out) < maxsplit:
            if not isinstance(rest, SymStr):
                parts = rest.split(sep, maxsplit - len(out) if maxsplit >= 0 else -1)
                return out + parts
            i = rest.find(sep)
            if i < 0:
                break
            out.append(rest[:i])
            rest = rest[i + len(sep):]
        out.append(rest)
        return out

    def replace(self, old, new):
        pat = self._lift(old)
        if not pat:
            raise llsym.Unsupported('replace of empty pattern')
        out = []
        i = 0
        n = len(self.chars)
        newc = self._lift(new)
        while i < n:
            if i + len(pat) <= n and self.ex.decide(self._match_at(i, pat)):
                out.extend(newc)
                i += len(pat)
            else:
                out.append(self.chars[i])
                i += 1
        return self._mk(out)

    def join(self, items):
        out = []
        first = True
        for it in items:
            if not first:
                out.extend(self.chars)
            first = False
            out.extend(self._lift(it))
        return self._mk(out)

    # ---- character classes --------------------------------------------------------------
    def _in_set(self, c, codes):
        if isinstance(c, int):
            return c in codes
        return self.ex.decide(z3.Or(*[c == x for x in codes]))

    def _is_ws(self, c):
        return self._in_set(c, WS)

    def _strip_chars(self, chars):
        if chars is None:
            return WS
        return tuple(ord(ch) for ch in chars)

    def rstrip(self, chars=None):
        codes = self._strip_chars(chars)
        n = len(self.chars)
        while n > 0 and self._in_set(self.chars[n - 1], codes):
            n -= 1
        return self._mk(self.chars[:n])

    def lstrip(self, chars=None):
        codes = self._strip_chars(chars)
        i = 0
        while i < len(self.chars) and self._in_set(self.chars[i], codes):
            i += 1
        return self._mk(self.chars[i:])

    def strip(self, chars=None):
        r = self.rstrip(chars)
        if isinstance(r, SymStr):
            return r.lstrip(chars)
        return r.lstrip(chars)

    def lower(self):
        out = []
        for c in self.chars:
            if isinstance(c, int):
                out.append(ord(chr(c).lower()))
            else:
                out.append(z3.If(z3.And(z3.UGE(c, 65), z3.ULE(c, 90)), c + 32, c))
        return self._mk(out)

    def upper(self):
        out = []
        for c in self.chars:
            if isinstance(c, int):
                out.append(ord(chr(c).upper()))
            else:
                out.append(z3.If(z3.And(z3.UGE(c, 97), z3.ULE(c, 122)), c - 32, c))
        return self._mk(out)

    def isspace(self):
        if not self.chars:
            return False
        for c in self.chars:
            if not self._is_ws(c):
                return False
        return True

    def isdigit(self):
        if not self.chars:
            return False
        for c in self.chars:
            if not self._in_set(c, tuple(range(48, 58))):
                return False
        return True

    def encode(self, *a, **k):
        raise llsym.Unsupported('encode() of a symbolic str')


# -----------------------------------------------------------------------------------------
# builtins for module namespaces:  module.int = sym_int ; module.ord = sym_ord ; module.len unaffected

def sym_ord(s):
    if isinstance(s, SymStr):
        if len(s.chars) != 1:
            raise TypeError('ord() expected a character, but string of length %d found' % len(s.chars))
        c = s.chars[0]
        if isinstance(c, int):
            return c
        return SymInt(s.ex, z3.BV2Int(c), 'int')
    return ord(s)


def _digit_value(ex, c, base):
    """fork on whether c is a digit of `base`; returns z3 Int term / python int, or None"""
    if isinstance(c, int):
        ch = chr(c)
        try:
            v = int(ch, 36)
        except ValueError:
            return None
        return v if v < base else None
    conds = []
    hi = min(base, 10)
    isnum = z3.And(z3.UGE(c, 48), z3.ULE(c, 48 + hi - 1))
    if ex.decide(isnum):
        return z3.BV2Int(c) - 48
    if base > 10:
        if ex.decide(z3.And(z3.UGE(c, 97), z3.ULE(c, 97 + base - 11))):
            return z3.BV2Int(c) - 87
        if ex.decide(z3.And(z3.UGE(c, 65), z3.ULE(c, 65 + base - 11))):
            return z3.BV2Int(c) - 55
    return None


def sym_int(x=0, base=None):
    """int() for SymStr arguments, exactly as CPython parses ASCII text:
    optional surrounding whitespace, optional sign, optional base prefix (base 0/2/8/16),
    digits with single underscores between them; base 0 forbids leading zeros in decimal."""
    if not isinstance(x, SymStr):
        if isinstance(x, SymInt):
            return x
        return int(x) if base is None else int(x, base)
    ex = x.ex
    s = x.strip()
    if base is None:
        base = 10
    bad = ValueError('invalid literal for int() with base %d' % base)
    if not isinstance(s, SymStr):
        return int(s, base)
    cs = list(s.chars)
    i = 0
    neg = False
    if i < len(cs) and s._in_set(cs[i], (43, 45)):
        neg = s._in_set(cs[i], (45,))
        i += 1
    if i >= len(cs):
        raise bad

    def is_ch(c, *codes):
        return s._in_set(c, codes)

    real_base = base
    prefixed = False
    if i + 1 < len(cs) and is_ch(cs[i], 48):
        for b, lo, up in ((16, 120, 88), (8, 111, 79), (2, 98, 66)):
            if base in (0, b) and is_ch(cs[i + 1], lo, up):
                real_base = b
                prefixed = True
                i += 2
                break
    if base == 0 and not prefixed:
        real_base = 10
    if i >= len(cs):
        raise bad
    # after a prefix one underscore may precede the digits
    if prefixed and is_ch(cs[i], 95):
        i += 1
        if i >= len(cs):
            raise bad
    val = None
    ndigits = 0
    first_digit_zero = None
    prev_us = False
    allzero = True
    while i < len(cs):
        c = cs[i]
        if is_ch(c, 95):
            if prev_us or ndigits == 0:
                raise bad
            prev_us = True
            i += 1
            continue
        d = _digit_value(ex, c, real_base)
        if d is None:
            raise bad
        if ndigits == 0:
            first_digit_zero = d
        val = d if val is None else val * real_base + d
        ndigits += 1
        prev_us = False
        i += 1
    if prev_us or ndigits == 0:
        raise bad
    if base == 0 and not prefixed and ndigits > 1:
        # "010" is invalid with base 0 unless the whole number is zero
        fz = first_digit_zero
        lead_zero = (fz == 0) if isinstance(fz, int) else ex.decide(fz == 0)
        if lead_zero:
            total_zero = (val == 0) if isinstance(val, int) else ex.decide(val == 0)
            if not total_zero:
                raise bad
    if isinstance(val, int):
        return -val if neg else val
    r = SymInt(ex, val, 'int')
    return -r if neg else r


# -----------------------------------------------------------------------------------------
# regular expressions: symbolic simulation of the NFA of a compiled pattern

class SymRegex(object):
    """Wraps a compiled `re` pattern: .match/.search on SymStr are decided symbolically by
    simulating the pattern's Thompson NFA (built from re's own parser output) over the
    fixed-length symbolic character list; on real str it delegates to the real pattern.
    Supported: literals, classes, ranges, negated classes, ., ?, *, +, {m,n}, alternation, groups
    (non-capturing semantics: only the boolean result is provided), ^, $ with Python's meaning
    (end of string or before a final newline), IGNORECASE on ASCII.  Anything else -> Unsupported."""

    def __init__(self, compiled, end_policy=None, groups=None):
        """end_policy: 'shortest' | 'longest' -- which end Python's backtracking picks for a given start
        (needed by finditer/sub/search-with-span; the caller states it per pattern and validates it against
        the real `re` on concrete strings with validate()); groups: callable(SymMatch) -> tuple of groups."""
        import re
        self.end_policy = end_policy
        self.groups_fn = groups
        self.rx = compiled
        try:
            import re._parser as sre_parse
        except ImportError:
            import sre_parse
        self.flags = compiled.flags
        self.tree = sre_parse.parse(compiled.pattern, compiled.flags)
        self.sre = sre_parse
        self.pattern = compiled.pattern

    def __getattr__(self, name):
        return getattr(self.rx, name)

    # NFA: states are ints; trans: list of (src, label, dst); label None = epsilon,
    # ('chr', predicate) consumes a char, ('at', kind) is an assertion
    def _build(self):
        self.trans = []
        self.nstates = 0

        def new():
            self.nstates += 1
            return self.nstates - 1

        def seq(items, start):
            cur = start
            for op, av in items:
                cur = node(op, av, cur)
            return cur

        def node(op, av, start):
            name = str(op)
            if name == 'LITERAL':
                e = new()
                self.trans.append((start, ('lit', av), e))
                return e
            if name == 'NOT_LITERAL':
                e = new()
                self.trans.append((start, ('notlit', av), e))
                return e
            if name == 'ANY':
                e = new()
                self.trans.append((start, ('any', None), e))
                return e
            if name == 'IN':
                e = new()
                self.trans.append((start, ('in', av), e))
                return e
            if name in ('MAX_REPEAT', 'MIN_REPEAT'):
                lo, hi, sub = av
                cur = start
                for _ in range(lo):
                    cur = seq(sub, cur)
                if str(hi) == 'MAXREPEAT':
                    loop = new()
                    self.trans.append((cur, None, loop))
                    e = seq(sub, loop)
                    self.trans.append((e, None, loop))
                    return loop
                ends = [cur]
                for _ in range(hi - lo):
                    cur = seq(sub, cur)
                    ends.append(cur)
                out = new()
                for x in ends:
                    self.trans.append((x, None, out))
                return out
            if name == 'SUBPATTERN':
                sub = av[-1]
                return seq(sub, start)
            if name == 'BRANCH':
                out = new()
                for alt in av[1]:
                    e = seq(alt, start)
                    self.trans.append((e, None, out))
                return out
            if name == 'AT':
                e = new()
                self.trans.append((start, ('at', str(av)), e))
                return e
            raise llsym.Unsupported('regex construct %s in %r' % (name, self.pattern))

        s0 = new()
        acc = seq(list(self.tree), s0)
        return s0, acc

    def _char_pred(self, label, c):
        import re
        kind, av = label
        icase = bool(self.flags & re.IGNORECASE)
        cz = llsym.bv(c, CW)

        def eqc(code):
            if icase and (65 <= code <= 90 or 97 <= code <= 122):
                return z3.Or(cz == (code | 32), cz == (code & ~32))
            return cz == code

        if kind == 'lit':
            return eqc(av)
        if kind == 'notlit':
            return z3.Not(eqc(av))
        if kind == 'any':
            if self.flags & re.DOTALL:
                return z3.BoolVal(True)
            return cz != 10
        if kind == 'in':
            neg = False
            alts = []
            for op, a in av:
                n = str(op)
                if n == 'NEGATE':
                    neg = True
                elif n == 'LITERAL':
                    alts.append(eqc(a))
                elif n == 'RANGE':
                    lo, hi = a
                    r = z3.And(z3.UGE(cz, lo), z3.ULE(cz, hi))
                    if icase:
                        # ranges of letters also match the other case
                        for (l2, h2, d) in ((65, 90, 32), (97, 122, -32)):
                            a0, b0 = max(lo, l2), min(hi, h2)
                            if a0 <= b0:
                                r = z3.Or(r, z3.And(z3.UGE(cz, a0 + d), z3.ULE(cz, b0 + d)))
                    alts.append(r)
                elif n == 'CATEGORY':
                    cat = str(a)
                    dig = z3.And(z3.UGE(cz, 48), z3.ULE(cz, 57))
                    ws = z3.Or(*[cz == w for w in WS])
                    word = z3.Or(dig, z3.And(z3.UGE(cz, 65), z3.ULE(cz, 90)),
                                 z3.And(z3.UGE(cz, 97), z3.ULE(cz, 122)), cz == 95)
                    table = {'CATEGORY_DIGIT': dig, 'CATEGORY_NOT_DIGIT': z3.Not(dig), 'CATEGORY_SPACE': ws,
                             'CATEGORY_NOT_SPACE': z3.Not(ws), 'CATEGORY_WORD': word,
                             'CATEGORY_NOT_WORD': z3.Not(word)}
                    if cat not in table:
                        raise llsym.Unsupported('regex category ' + cat)
                    alts.append(table[cat])
                else:
                    raise llsym.Unsupported('regex class item ' + n)
            r = z3.Or(*alts) if alts else z3.BoolVal(False)
            return z3.Not(r) if neg else r
        raise llsym.Unsupported('regex label %r' % (label,))

    def _concrete_pred(self, label, code):
        """the character predicate on a concrete code point (same meaning as _char_pred)"""
        import re
        kind, av = label
        icase = bool(self.flags & re.IGNORECASE)

        def eqc(x):
            if icase and (65 <= x <= 90 or 97 <= x <= 122):
                return code == (x | 32) or code == (x & ~32)
            return code == x
        if kind == 'lit':
            return eqc(av)
        if kind == 'notlit':
            return not eqc(av)
        if kind == 'any':
            return True if (self.flags & re.DOTALL) else code != 10
        if kind == 'in':
            neg, hit = False, False
            for op, a_ in av:
                n_ = str(op)
                if n_ == 'NEGATE':
                    neg = True
                elif n_ == 'LITERAL':
                    hit = hit or eqc(a_)
                elif n_ == 'RANGE':
                    lo, hi = a_
                    r = lo <= code <= hi
                    if icase and not r:
                        for (l2, h2, d) in ((65, 90, 32), (97, 122, -32)):
                            a0, b0 = max(lo, l2), min(hi, h2)
                            if a0 <= b0 and a0 + d <= code <= b0 + d:
                                r = True
                    hit = hit or r
                elif n_ == 'CATEGORY':
                    cat = str(a_)
                    dig = 48 <= code <= 57
                    ws = code in WS
                    word = dig or 65 <= code <= 90 or 97 <= code <= 122 or code == 95
                    table = {'CATEGORY_DIGIT': dig, 'CATEGORY_NOT_DIGIT': not dig, 'CATEGORY_SPACE': ws,
                             'CATEGORY_NOT_SPACE': not ws, 'CATEGORY_WORD': word, 'CATEGORY_NOT_WORD': not word}
                    if cat not in table:
                        raise llsym.Unsupported('regex category ' + cat)
                    hit = hit or table[cat]
                else:
                    raise llsym.Unsupported('regex class item ' + n_)
            return (not hit) if neg else hit
        raise llsym.Unsupported('regex label %r' % (label,))

    def _nfa(self):
        if getattr(self, '_nfa_cache', None) is None:
            s0, acc = self._build()
            eps = [(a, b) for a, l, b in self.trans if l is None]
            ats = [(a, l[1], b) for a, l, b in self.trans if l is not None and l[0] == 'at']
            chs = [(a, l, b) for a, l, b in self.trans if l is not None and l[0] != 'at']
            self._nfa_cache = (s0, acc, eps, ats, chs)
        return self._nfa_cache

    def _run(self, s, start_positions):
        """z3 Bool (or python bool folded into one): the pattern matches starting at one of start_positions
        (prefix match).  Conditions over concrete characters are folded as Python bools."""
        import re
        s0, acc, eps, ats, chs = self._nfa()
        chars = s.chars
        n = len(chars)
        multiline = bool(self.flags & re.MULTILINE)
        T, Fz = z3.BoolVal(True), z3.BoolVal(False)

        def lift(x):
            return x if not isinstance(x, bool) else (T if x else Fz)

        def or_(x, y):
            if x is True or y is True:
                return True
            if x is False:
                return y
            if y is False:
                return x
            return z3.Or(x, y)

        def and_(x, y):
            if x is False or y is False:
                return False
            if x is True:
                return y
            if y is True:
                return x
            return z3.And(x, y)

        def is_nl(pos):
            c = chars[pos]
            return (c == 10) if isinstance(c, int) else (llsym.bv(c, CW) == 10)

        def word(pos):
            if pos < 0 or pos >= n:
                return False
            c = chars[pos]
            if isinstance(c, int):
                return 48 <= c <= 57 or 65 <= c <= 90 or 97 <= c <= 122 or c == 95
            cz = llsym.bv(c, CW)
            return z3.Or(z3.And(z3.UGE(cz, 48), z3.ULE(cz, 57)), z3.And(z3.UGE(cz, 65), z3.ULE(cz, 90)),
                         z3.And(z3.UGE(cz, 97), z3.ULE(cz, 122)), cz == 95)

        def at_cond(kind, pos):
            if kind in ('AT_BEGINNING', 'AT_BEGINNING_STRING'):
                if kind == 'AT_BEGINNING' and multiline and pos > 0:
                    return is_nl(pos - 1)
                return pos == 0
            if kind == 'AT_END':
                if pos == n:
                    return True
                if multiline:
                    return is_nl(pos)
                if pos == n - 1:
                    return is_nl(pos)
                return False
            if kind == 'AT_END_STRING':
                return pos == n
            if kind in ('AT_BOUNDARY', 'AT_NON_BOUNDARY'):
                x, y = word(pos - 1), word(pos)
                if isinstance(x, bool) and isinstance(y, bool):
                    b_ = x != y
                else:
                    b_ = z3.Xor(lift(x), lift(y))
                if kind == 'AT_BOUNDARY':
                    return b_
                return (not b_) if isinstance(b_, bool) else z3.Not(b_)
            raise llsym.Unsupported('regex assertion ' + kind)

        def closure(act, pos):
            act = list(act)
            conds = {}
            for _ in range(self.nstates + 1):
                changed = False
                for a, b in eps:
                    if act[a] is not False and act[b] is not True:
                        nv = or_(act[b], act[a])
                        if nv is not act[b] and not (not isinstance(nv, bool) and not isinstance(act[b], bool) and z3.eq(nv, act[b])):
                            if isinstance(nv, bool) or isinstance(act[b], bool) or not _subsumed(act[b], act[a]):
                                act[b] = nv
                                changed = True
                for a, kind, b in ats:
                    if act[a] is not False and act[b] is not True:
                        if (kind, pos) not in conds:
                            conds[(kind, pos)] = at_cond(kind, pos)
                        t = and_(act[a], conds[(kind, pos)])
                        if t is False:
                            continue
                        nv = or_(act[b], t)
                        if nv is not act[b] and (isinstance(nv, bool) or isinstance(act[b], bool) or not _subsumed(act[b], t)):
                            act[b] = nv
                            changed = True
                if not changed:
                    break
            return act

        def _subsumed(cur, add):
            """cheap syntactic check that `add` is already a disjunct of `cur` (keeps the fixpoint finite)"""
            if z3.eq(cur, add):
                return True
            if z3.is_or(cur):
                return any(z3.eq(c_, add) for c_ in cur.children())
            return False

        collect = getattr(self, '_collect', None)
        result = False
        active = [False] * self.nstates
        for pos in range(n + 1):
            if pos in start_positions:
                active[s0] = True
            if all(x is False for x in active):
                if not any(p_ > pos for p_ in start_positions):
                    break
                continue
            active = closure(active, pos)
            result = or_(result, active[acc])
            if collect is not None:
                collect.append((pos, z3.simplify(lift(active[acc]))))
            if pos == n:
                break
            nxt = [False] * self.nstates
            c = chars[pos]
            for a, l, b in chs:
                if active[a] is False:
                    continue
                if isinstance(c, int):
                    pr = self._concrete_pred(l, c)
                else:
                    pr = self._char_pred(l, c)
                nxt[b] = or_(nxt[b], and_(active[a], pr))
            active = [z3.simplify(x) if not isinstance(x, bool) else x for x in nxt]
            active = [(True if z3.is_true(x) else (False if z3.is_false(x) else x)) if not isinstance(x, bool) else x for x in active]
        return z3.simplify(lift(result))

    def _ends(self, s, i):
        """[(j, cond)] : the pattern matches exactly s[i:j] (cond is a z3 Bool, never syntactically false)"""
        saved = getattr(self, '_collect', None)
        self._collect = []
        try:
            self._run(s, (i,))
            got = self._collect
        finally:
            self._collect = saved
        return [(j, c) for j, c in got if j >= i and not z3.is_false(c)]

    def _first_match(self, s, pos):
        """leftmost match at or after pos, end chosen by end_policy; returns (i, j) or None (forks through decide)"""
        if self.end_policy is None:
            raise llsym.Unsupported('finditer/sub on SymStr needs an end policy for %r' % self.pattern)
        n = len(s.chars)
        ex = s.ex
        for i in range(pos, n + 1):
            ends = self._ends(s, i)
            if not ends:
                continue
            anyc = z3.simplify(z3.Or(*[c for j, c in ends]))
            if z3.is_false(anyc) or not ex.decide(anyc):
                continue
            order = sorted(ends, key=lambda jc: jc[0], reverse=(self.end_policy == 'longest'))
            for j, c in order[:-1]:
                if ex.decide(c):
                    return i, j
            return i, order[-1][0]
        return None

    def finditer(self, s, *a):
        if not isinstance(s, SymStr):
            return self.rx.finditer(s, *a)
        out = []
        pos = 0
        n = len(s.chars)
        while pos <= n:
            m = self._first_match(s, pos)
            if m is None:
                break
            i, j = m
            out.append(SymMatch(self, s, i, j))
            pos = j if j > i else i + 1
        return iter(out)

    def sub(self, repl, s, count=0):
        if not isinstance(s, SymStr) and not callable(repl):
            return self.rx.sub(repl, s, count)
        pieces = []
        last = 0
        for m in (self.finditer(s) if isinstance(s, SymStr) else self.rx.finditer(s)):
            pieces.append(s[last:m.start()])
            r = repl(m) if callable(repl) else repl
            if not callable(repl) and isinstance(repl, str) and '\\' in repl:
                raise llsym.Unsupported('backreferences in a replacement template')
            pieces.append(r)
            last = m.end()
        pieces.append(s[last:])
        res = ''
        for p_ in pieces:
            res = res + p_ if not (isinstance(res, str) and res == '') else p_
        return res

    def findall(self, s, *a):
        if not isinstance(s, SymStr):
            return self.rx.findall(s, *a)
        return [m.group() for m in self.finditer(s)]

    def validate(self, samples):
        """differential check of the NFA + end policy against the real `re` on concrete strings; returns disagreements"""
        bad = []

        class _Ex(object):           # a trivial explorer: conditions are concrete
            def decide(self, c):
                c = z3.simplify(c) if not isinstance(c, bool) else c
                if isinstance(c, bool):
                    return c
                if z3.is_true(c):
                    return True
                if z3.is_false(c):
                    return False
                raise llsym.Unsupported('validate(): non-constant condition')
        for text in samples:
            want = [(m.start(), m.end()) for m in self.rx.finditer(text)]
            ss = SymStr(_Ex(), [ord(ch) for ch in text])
            try:
                got = [(m.start(), m.end()) for m in self.finditer(ss)]
            except llsym.Unsupported as e:
                got = 'unsupported: %s' % e
            if got != want:
                bad.append((text, want, got))
        return bad

    def match(self, s, *a):
        if not isinstance(s, SymStr):
            return self.rx.match(s, *a)
        t = self._run(s, (0,))
        if z3.is_false(t):
            return None
        return _M() if s.ex.decide(t) else None

    def search(self, s, *a):
        if not isinstance(s, SymStr):
            return self.rx.search(s, *a)
        if self.end_policy is not None:
            m = self._first_match(s, a[0] if a else 0)
            return SymMatch(self, s, m[0], m[1]) if m else None
        t = self._run(s, tuple(range(len(s.chars) + 1)))
        if z3.is_false(t):
            return None
        return _M() if s.ex.decide(t) else None

    def fullmatch(self, s, *a):
        raise llsym.Unsupported('fullmatch on SymStr')


F_CONST = z3.BoolVal(False)


class SymMatch(object):
    """match object over a SymStr with a concrete span"""

    def __init__(self, rx, s, i, j):
        self.rx, self.string, self.i, self.j = rx, s, i, j

    def __bool__(self):
        return True

    def start(self, g=0):
        if g:
            raise llsym.Unsupported('start(group) on a symbolic match')
        return self.i

    def end(self, g=0):
        if g:
            raise llsym.Unsupported('end(group) on a symbolic match')
        return self.j

    def span(self):
        return (self.i, self.j)

    def group(self, *gs):
        if not gs or gs == (0,):
            return self.string[self.i:self.j]
        allg = self.groups()
        r = tuple(allg[g - 1] for g in gs)
        return r[0] if len(r) == 1 else r

    def groups(self):
        if self.rx.groups_fn is None:
            raise llsym.Unsupported('groups of %r on a symbolic match' % self.rx.pattern)
        return self.rx.groups_fn(self)


class _M(object):
    """truthy match result; groups are not modelled"""

    def __bool__(self):
        return True

    def group(self, *a):
        raise llsym.Unsupported('match.group() on a symbolic match')

    groups = start = end = span = group


# -----------------------------------------------------------------------------------------
# Tok: a real `str` whose content is an opaque sentinel standing for a SymStr

SENT_A, SENT_B = '', ''


class Tok(str):
    """A str *subclass* instance (so isinstance(x, str), '%s' %, str.join, f.write all work) whose
    real content is a unique sentinel; `expand()` turns any real text containing sentinels back
    into a SymStr.  Content-inspecting operations are overridden to act on the symbolic string."""

    _table = {}

    def __new__(cls, sym):
        n = len(cls._table)
        self = str.__new__(cls, '%s%x%s' % (SENT_A, n, SENT_B))
        cls._table[n] = sym
        self.sym = sym
        return self

    @classmethod
    def reset(cls):
        cls._table = {}

    def __len__(self):
        return len(self.sym)

    def __str__(self):
        return str.__str__(self)

    def __eq__(self, o):
        return self.sym == (o.sym if isinstance(o, Tok) else o)

    def __ne__(self, o):
        return self.sym != (o.sym if isinstance(o, Tok) else o)

    def __lt__(self, o):
        return self.sym < (o.sym if isinstance(o, Tok) else o)

    def __le__(self, o):
        return self.sym <= (o.sym if isinstance(o, Tok) else o)

    def __gt__(self, o):
        return self.sym > (o.sym if isinstance(o, Tok) else o)

    def __ge__(self, o):
        return self.sym >= (o.sym if isinstance(o, Tok) else o)

    def __hash__(self):
        return hash(self.sym)


def expand(ex, text):
    """real text with sentinels -> SymStr / str"""
    out = []
    i = 0
    while i < len(text):
        ch = text[i]
        if ch == SENT_A:
            j = text.index(SENT_B, i)
            sym = Tok._table[int(text[i + 1:j], 16)]
            out.extend(sym.chars if isinstance(sym, SymStr) else [ord(c) for c in sym])
            i = j + 1
        else:
            out.append(ord(ch))
            i += 1
    if all(isinstance(c, int) for c in out):
        return ''.join(chr(c) for c in out)
    return SymStr(ex, out)


def _tokwrap(v):
    if isinstance(v, SymStr):
        return Tok(v)
    if isinstance(v, (list, tuple)):
        return type(v)(_tokwrap(x) for x in v)
    return v


for _name in ('lstrip', 'rstrip', 'strip', 'lower', 'upper', 'split', 'partition', 'replace'):
    def _mk(name):
        def method(self, *a, **k):
            return _tokwrap(getattr(self.sym, name)(*a, **k))
        return method
    setattr(Tok, _name, _mk(_name))
for _name in ('startswith', 'endswith', 'find', 'rfind', 'index', 'count', 'isspace', 'isdigit', '__contains__'):
    def _mk2(name):
        def method(self, *a, **k):
            return getattr(self.sym, name)(*a, **k)
        return method
    setattr(Tok, _name, _mk2(_name))


def _tok_getitem(self, i):
    return _tokwrap(self.sym[i])


Tok.__getitem__ = _tok_getitem


def sym_hex(x):
    """hex() for SymInt arguments (non-negative, < 2**32): forks on the number of hex digits"""
    from .pysym import SymInt
    if not isinstance(x, SymInt):
        return hex(x)
    ex = x.ex
    t = x.t
    if x.mode == 'int':
        raise llsym.Unsupported('hex() of an Int-backed symbolic int')
    W = t.size()
    ex.assume(z3.And(t >= 0, t < (1 << 32)))
    nd = 1
    while nd < 8 and ex.decide(z3.UGE(t, 1 << (4 * nd))):
        nd += 1
    chars = [ord('0'), ord('x')]
    for k in range(nd - 1, -1, -1):
        nib = z3.Extract(CW - 1, 0, z3.ZeroExt(CW, z3.LShR(t, 4 * k) & 15)) if W >= CW else None
        nib = z3.ZeroExt(CW - 4, z3.Extract(3, 0, z3.LShR(t, 4 * k)))
        chars.append(z3.If(z3.ULT(nib, 10), nib + 48, nib + 87))
    return Tok(SymStr(ex, chars))


# -----------------------------------------------------------------------------------------
# lifting the str constants of a function under test (the bytecode stays the real one)

class LStr(str):
    """a str constant made aware of symbolic operands: `x in CONST`, `CONST % args`, `CONST + x`, `CONST.join(xs)`"""

    def __contains__(self, item):
        if isinstance(item, SymStr):
            if len(item) == 0:
                return True
            n, k = len(self), len(item)
            alts = [z3.And(*[llsym.bv(item.chars[t], CW) == ord(self[i + t]) for t in range(k)]) for i in range(n - k + 1)]
            return item.ex.decide(z3.Or(*alts)) if alts else False
        return str.__contains__(self, item)

    def __mod__(self, arg):
        args = arg if isinstance(arg, tuple) else (arg,)
        if not any(isinstance(a, SymStr) for a in args):
            return str.__mod__(self, arg)
        import re
        parts = re.split(r'(%[sdr%])', str(self))
        out = ''
        it = iter(args)
        for p_ in parts:
            if p_ == '%%':
                piece = '%'
            elif p_ in ('%s', '%d', '%r'):
                a = next(it)
                if isinstance(a, SymStr):
                    if p_ != '%s':
                        raise llsym.Unsupported('%r of a symbolic str' % p_)
                    piece = a
                else:
                    piece = p_ % (a,)
            else:
                piece = p_
            out = (out + piece) if not (isinstance(out, str) and out == '') else piece
        return out

    def __add__(self, o):
        if isinstance(o, SymStr):
            return o.__radd__(str(self))
        return str.__add__(self, o)

    def join(self, items):
        items = list(items)
        if not any(isinstance(x, SymStr) for x in items):
            return str.join(self, items)
        out = ''
        for k, x in enumerate(items):
            if k:
                out = (out + str(self)) if str(self) else out
            out = (out + x) if not (isinstance(out, str) and out == '') else x
        return out


def lift_consts(fn):
    """the same function object code with its str constants replaced by LStr (recursively for nested code objects)"""
    import types

    def lift_code(code):
        consts = []
        for c in code.co_consts:
            if isinstance(c, str):
                consts.append(LStr(c))
            elif isinstance(c, types.CodeType):
                consts.append(lift_code(c))
            else:
                consts.append(c)
        return code.replace(co_consts=tuple(consts))
    return types.FunctionType(lift_code(fn.__code__), fn.__globals__, fn.__name__, fn.__defaults__, fn.__closure__)


def lift_source(fn):
    """Re-compile fn from its source text (read from the working tree at run time) with every str literal wrapped in LStr(...).
    Unlike lift_consts this also covers '%s %s' % (a, b), which CPython >= 3.11 compiles into f-string byte code (format() of
    each operand) when the left operand is a literal."""
    import inspect, ast, textwrap
    src = textwrap.dedent(inspect.getsource(fn))
    tree = ast.parse(src)

    class T(ast.NodeTransformer):
        def visit_JoinedStr(self, node):
            return node

        def visit_Constant(self, node):
            if isinstance(node.value, str):
                return ast.copy_location(ast.Call(func=ast.Name('__LStr__', ast.Load()), args=[node], keywords=[]), node)
            return node

        def visit_FunctionDef(self, node):
            body = node.body
            doc = None
            if body and isinstance(body[0], ast.Expr) and isinstance(getattr(body[0], 'value', None), ast.Constant) \
                    and isinstance(body[0].value.value, str):
                doc, body = body[0], body[1:]
            node.body = ([doc] if doc else []) + [self.visit(b) for b in body]
            node.decorator_list = []
            return node
    tree = ast.fix_missing_locations(T().visit(tree))
    g = dict(fn.__globals__)
    g['__LStr__'] = LStr
    code = compile(tree, getattr(fn, '__code__', None) and fn.__code__.co_filename or '<lifted>', 'exec')
    ns = {}
    exec(code, g, ns)
    return ns[fn.__name__]
