"""Shared plumbing for all checks: verdict bookkeeping, evidence, known findings, replay.

Exit codes (DESIGN.md 3.1):
  0  property held on everything explored (all obligations unsat / confirmed)
  1  VIOLATION (replayed on the real code, not a known finding)
  2  inconclusive (unknown / timeout / unsupported / unwinding assertion failed)
  3  harness error (a solver model that does not reproduce on the real code)
"""
import json, os, sys, time, subprocess, shutil, tempfile, hashlib, traceback

VERIF = os.path.dirname(os.path.dirname(os.path.abspath(__file__)))
REPO = os.environ.get('VERIF_REPO', '/repo')
EVIDENCE_DIR = os.path.join(VERIF, 'evidence')
REPLAY_DIR = os.path.join(EVIDENCE_DIR, 'replay')
KNOWN_FINDINGS = os.path.join(VERIF, 'known_findings.jsonl')
VENV_PY = os.path.join(VERIF, '.venv', 'bin', 'python')

EXIT_OK, EXIT_VIOLATION, EXIT_INCONCLUSIVE, EXIT_HARNESS = 0, 1, 2, 3


class Inconclusive(Exception):
    pass


class HarnessError(Exception):
    pass


def load_known_findings(prop):
    out = []
    if os.path.exists(KNOWN_FINDINGS):
        for line in open(KNOWN_FINDINGS):
            line = line.strip()
            if not line or line.startswith('#') or line.startswith('fixed:'):
                continue
            rec = json.loads(line)
            if rec.get('property') == prop and rec.get('status', 'open') == 'open':
                out.append(rec)
    return out


_scratch = None


def scratch_dir():
    """Scratch directory outside /repo and /verif; removed at exit."""
    global _scratch
    if _scratch is None:
        base = os.environ.get('VERIF_SCRATCH') or tempfile.gettempdir()
        _scratch = tempfile.mkdtemp(prefix='verif-', dir=base)
        import atexit
        atexit.register(lambda: shutil.rmtree(_scratch, ignore_errors=True))
    return _scratch


class Check(object):
    """Collects obligations and writes evidence/<id>.json."""

    def __init__(self, prop, tier, level='model_checking'):
        self.prop = prop
        self.tier = tier
        self.level = level
        self.seed = int(os.environ.get('VERIF_SEED', '0') or 0)
        self.t0 = time.time()
        self.queries = []          # dict(name, verdict, seconds, [detail])
        self.functions = []        # dict(name, file, lines, ir_instructions)
        self.bounds = {}
        self.outside = []
        self.assumptions = []
        self.stubs = set()
        self.samples = []
        self.witnesses = set()     # distinct reachable case-split witnesses
        self.violations = []       # dict(what, replay)
        self.known_hits = []
        self.inconclusive = []
        self.harness_errors = []
        self.paths = 0
        self.solver_time = 0.0
        self.unwinding = 0
        self.translator_validation = {'samples': 0, 'disagreements': 0}
        self.extra = {}
        self.known = load_known_findings(prop)

    # ---- recording -------------------------------------------------------
    def query(self, name, verdict, seconds, detail=None):
        q = {'name': name, 'verdict': verdict, 'seconds': round(seconds, 4)}
        if detail is not None:
            q['detail'] = detail
        self.queries.append(q)
        self.solver_time += seconds

    def witness(self, name):
        self.witnesses.add(name)

    def sample(self, s):
        if len(self.samples) < 12:
            self.samples.append(s)

    def assume(self, text):
        if text not in self.assumptions:
            self.assumptions.append(text)

    def inconc(self, what):
        self.inconclusive.append(what)
        print('INCONCLUSIVE: property=%s %s' % (self.prop, what))
        sys.stdout.flush()

    def harness_error(self, what):
        self.harness_errors.append(what)
        print('HARNESS-ERROR: property=%s %s' % (self.prop, what))
        sys.stdout.flush()

    def match_known(self, tags):
        """tags: dict describing the failing input; a known finding matches when all
        key/values of its 'match' dict are equal to the tags' values."""
        for rec in self.known:
            m = rec.get('match', {})
            if m and all(tags.get(k) == v for k, v in m.items()):
                return rec
        return None

    def report_failure(self, what, tags, replay_script=None, replay_ok=None):
        """A solver model that contradicts the property.  replay_ok: True if it reproduced
        on the real code, False if not, None if no replay was possible."""
        if replay_ok is False:
            self.harness_error('model does not reproduce on the real code: ' + what)
            return 'harness'
        rec = self.match_known(tags)
        if rec is not None:
            line = 'KNOWN-FINDING: property=%s %s' % (self.prop, rec['what'])
            if rec['id'] not in [k['id'] for k in self.known_hits]:
                if not getattr(self, 'quiet_known', False):
                    print(line)
                    sys.stdout.flush()
                self.known_hits.append({'id': rec['id'], 'what': rec['what'], 'instance': what})
            return 'known'
        path = replay_script or ''
        self.violations.append({'what': what, 'replay': path, 'tags': tags})
        print('VIOLATION property=%s replay=%s' % (self.prop, path))
        print('  ' + what)
        sys.stdout.flush()
        return 'violation'

    def write_replay(self, name, body):
        os.makedirs(REPLAY_DIR, exist_ok=True)
        # unique per content: workers run in parallel and may replay different cases of the same kind
        tag = hashlib.md5(body.encode('utf-8', 'replace')).hexdigest()[:8]
        path = os.path.join(REPLAY_DIR, '%s-%s-%s.py' % (self.prop, name, tag))
        tmp = path + '.%d.tmp' % os.getpid()
        with open(tmp, 'w') as f:
            f.write(body)
        os.replace(tmp, path)
        return path

    # ---- finishing -------------------------------------------------------
    def finish(self):
        wall = time.time() - self.t0
        n_q = len(self.queries)
        cov = {
            'evaluations': max(n_q, 1) if n_q else 0,
            'distinct_nontrivial': len(self.witnesses),
            'rule': ('evaluations = solver queries discharged (one per obligation per explored '
                     'path/case); distinct_nontrivial = distinct case-split witnesses shown '
                     'reachable (sat) under the harness assumptions by the solver'),
            'samples': self.samples or ['(no sample recorded)'],
            'obligations': n_q,
            'discharged': sum(1 for q in self.queries if q['verdict'] in ('unsat', 'confirmed', 'sat-expected')),
            'functions_encoded': self.functions,
            'bounds': self.bounds,
            'outside_bounds': self.outside,
            'paths': self.paths,
            'unwinding_assertions': self.unwinding,
            'stubs': sorted(self.stubs),
            'solver_time_s': round(self.solver_time, 3),
            'translator_validation': self.translator_validation,
            'witnesses': sorted(self.witnesses)[:200],
            'known_findings_hit': self.known_hits,
            'inconclusive': self.inconclusive,
            'harness_errors': self.harness_errors,
            'violations': self.violations,
        }
        cov.update(self.extra)
        qs = self.queries
        grp = {}
        for q in qs:
            k = q['name'].split(':')[0]
            g = grp.setdefault(k, [0, 0.0])
            g[0] += 1
            g[1] += q['seconds']
        cov['solver_time_by_case'] = [dict(case=k, queries=v[0], seconds=round(v[1], 2))
                                      for k, v in sorted(grp.items(), key=lambda kv: -kv[1][1])[:40]]
        if len(qs) > 400:
            # keep the evidence readable: aggregate per verdict, keep slowest + first ones
            slow = sorted(qs, key=lambda q: -q['seconds'])[:100]
            cov['queries'] = qs[:200] + slow
            cov['queries_truncated'] = True
        else:
            cov['queries'] = qs
        try:
            import z3
            cov['solver'] = 'z3 ' + z3.get_version_string()
        except Exception:
            pass
        ev = {
            'property_id': self.prop, 'tier': self.tier, 'seed': self.seed,
            'level': self.level, 'coverage': cov, 'assumptions': self.assumptions,
            'wall_s': round(wall, 2), 'violations': len(self.violations),
        }
        # evidence/<id>.json describes runs against /repo itself; runs against another tree (VERIF_REPO: seeded changes,
        # mutation probes) go to evidence/other-tree/ so that they never replace it
        outdir = EVIDENCE_DIR if os.path.realpath(REPO) == '/repo' else os.path.join(EVIDENCE_DIR, 'other-tree')
        os.makedirs(outdir, exist_ok=True)
        ev['tree'] = os.path.realpath(REPO)
        with open(os.path.join(outdir, self.prop + '.json'), 'w') as f:
            json.dump(ev, f, indent=1, default=str)
            f.write('\n')
        if outdir == EVIDENCE_DIR:
            # one-line summary per tier (the appendix of DESIGN.md is generated from these)
            os.makedirs(os.path.join(EVIDENCE_DIR, 'tiers'), exist_ok=True)
            summ = {'property_id': self.prop, 'tier': self.tier, 'obligations': n_q, 'witnesses': len(self.witnesses),
                    'paths': self.paths, 'solver_time_s': round(self.solver_time, 1), 'wall_s': round(wall, 1),
                    'known_findings_hit': [k['id'] for k in self.known_hits], 'violations': len(self.violations),
                    'inconclusive': len(self.inconclusive), 'harness_errors': len(self.harness_errors),
                    'bounds': self.bounds, 'functions_encoded': len(self.functions)}
            with open(os.path.join(EVIDENCE_DIR, 'tiers', '%s-%s.json' % (self.prop, self.tier)), 'w') as f:
                json.dump(summ, f, indent=1, default=str)
                f.write('\n')
        if self.violations:
            code = EXIT_VIOLATION
        elif self.harness_errors:
            code = EXIT_HARNESS
        elif self.inconclusive or n_q == 0:
            if n_q == 0 and not self.inconclusive:
                print('INCONCLUSIVE: property=%s no obligation was discharged' % self.prop)
            code = EXIT_INCONCLUSIVE
        else:
            code = EXIT_OK
        print('%s %s: %d obligations, %d witnesses, %d paths, %d known-finding(s), '
              'solver %.1fs, wall %.1fs -> exit %d'
              % (self.prop, self.tier, n_q, len(self.witnesses), self.paths,
                 len(self.known_hits), self.solver_time, wall, code))
        return code


# -------------------------------------------------------------------------------
# Real-build replay support

_real_build = None


def real_build():
    """Copy /repo's working tree to scratch and build _cffi_backend there (once per run,
    shared by forked workers through a lock file).  Returns the path to put on PYTHONPATH."""
    global _real_build
    if _real_build is not None:
        return _real_build
    import fcntl
    sd = scratch_dir()
    dst = os.path.join(sd, 'tree')
    with open(os.path.join(sd, 'build.lock'), 'w') as lk:
        fcntl.flock(lk, fcntl.LOCK_EX)
        if not os.path.exists(os.path.join(sd, 'build.ok')):
            shutil.rmtree(dst, ignore_errors=True)
            os.makedirs(dst)
            for name in ('setup.py', 'setup_base.py', 'pyproject.toml', 'README.md', 'LICENSE', 'MANIFEST.in'):
                p = os.path.join(REPO, name)
                if os.path.exists(p):
                    shutil.copy2(p, dst)
            shutil.copytree(os.path.join(REPO, 'src'), os.path.join(dst, 'src'),
                            ignore=shutil.ignore_patterns('*.so', '__pycache__', '*.egg-info', 'build'))
            log = os.path.join(sd, 'build.log')
            with open(log, 'w') as f:
                r = subprocess.run(['/venv/bin/python', 'setup.py', '-q', 'build_ext', '-i'],
                                   cwd=dst, stdout=f, stderr=subprocess.STDOUT)
            if r.returncode != 0:
                raise HarnessError('real build failed:\n' + open(log).read()[-2000:])
            open(os.path.join(sd, 'build.ok'), 'w').close()
    _real_build = os.path.join(dst, 'src')
    return _real_build


def run_replay(script_path, timeout=120):
    """Run a replay script against a fresh build of the working tree.
    The script exits 1 iff the property's statement is violated, 0 if it holds."""
    src = real_build()
    env = dict(os.environ)
    env['PYTHONPATH'] = src
    env.pop('PYTHONHASHSEED', None)
    # temporary files of the replay scripts live in the run's scratch directory (removed at exit)
    td = os.path.join(scratch_dir(), 'replay-tmp')
    os.makedirs(td, exist_ok=True)
    env['TMPDIR'] = td
    r = subprocess.run(['/venv/bin/python', script_path], env=env, stdout=subprocess.PIPE,
                       stderr=subprocess.STDOUT, timeout=timeout)
    return r.returncode, r.stdout.decode('utf-8', 'replace')


def run_real(code, timeout=120):
    """Run a python snippet against the fresh real build; returns (rc, output)."""
    p = os.path.join(scratch_dir(), 'snip-%s.py' % hashlib.md5(code.encode()).hexdigest()[:10])
    with open(p, 'w') as f:
        f.write(code)
    return run_replay(p, timeout)


def replay_verdict(rc, out):
    """True: the violation reproduced (exit 1 + a VIOLATED line); False: it did not (exit 0);
    anything else (crash of the replay script itself) is a harness error."""
    if rc == 0:
        return False
    if rc == 1 and 'VIOLATED' in out:
        return True
    raise HarnessError('replay script crashed (rc=%s):\n%s' % (rc, out[-2000:]))
