#!/bin/sh
# Create the overlay interpreter used by every check (offline).
# /verif/.venv = venv of /venv/bin/python + /venv's site-packages (cffi editable, pycparser)
#              + z3-solver, jsonschema from the offline wheelhouse.
set -e
V=/verif/.venv
if [ -x "$V/bin/python" ] && "$V/bin/python" -c "import z3, jsonschema, cffi, pycparser" 2>/dev/null; then
    exit 0
fi
rm -rf "$V"
/venv/bin/python -m venv "$V"
SP=$("$V/bin/python" -c "import sysconfig;print(sysconfig.get_paths()['purelib'])")
printf "import site; site.addsitedir('/venv/lib/python3.12/site-packages')\n" > "$SP/_verif_overlay.pth"
PIP_NO_INDEX=1 "$V/bin/python" -m pip install -q --no-index --find-links /opt/veriftools/wheels \
    z3-solver jsonschema >/dev/null
"$V/bin/python" -c "import z3, jsonschema, cffi, pycparser; print('overlay ok', z3.get_version_string())"
