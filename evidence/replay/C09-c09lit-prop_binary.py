
# Replay of a CrossHair counterexample in plain CPython against the code on PYTHONPATH.
# Exits 1 iff the harness function reports a violation (returns False or raises).
import sys
sys.path.insert(0, '/verif/evidence/replay')
import xh_C09_c09lit as H
call = "prop_binary('01', 17, True)"
try:
    r = eval(call, vars(H))
except BaseException as e:
    print('VIOLATED:', call, 'raised', type(e).__name__, e)
    sys.exit(1)
if r is not True:
    print('VIOLATED:', call, 'returned', r)
    sys.exit(1)
sys.exit(0)
