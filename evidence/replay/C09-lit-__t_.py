
# Replay for C09 (literal text): cffi's value of the constant vs the C compiler's.
import sys, json, subprocess, tempfile, os
import cffi
text = json.loads('"\'\\\\t\'"')
ffi = cffi.FFI()
try:
    ffi.cdef('enum e { A = %s };' % text)
    got = ('ok', int(ffi.cast('enum e', 0) == 0) and ffi.typeof('enum e').relements['A'])
except Exception as e:
    got = ('exc', type(e).__name__)
d = tempfile.mkdtemp()
src = os.path.join(d, 't.c')
open(src, 'w').write('#include <stdio.h>\nint main(void){ printf("%%lld\\n", (long long)(%s)); return 0; }\n' % text)
r = subprocess.run(['gcc', '-w', '-o', os.path.join(d, 't'), src], capture_output=True)
want = None
if r.returncode == 0:
    want = int(subprocess.run([os.path.join(d, 't')], capture_output=True).stdout.decode().strip())
bad = want is not None and got != ('ok', want)
print('VIOLATED:' if bad else 'agree:', repr(text), 'cffi:', got, ' gcc:', want)
sys.exit(1 if bad else 0)
