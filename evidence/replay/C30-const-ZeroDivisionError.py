
# Replay for C30 (Python side): the text must make cdef() succeed or raise a cffi error.
import sys, json
import cffi
from cffi.error import CDefError, FFIError, VerificationError, VerificationMissing
src = json.loads('"enum e { A = (-18446744073709551616) % (0) };"')
try:
    cffi.FFI().cdef(src)
    print('accepted')
except (CDefError, FFIError, NotImplementedError, VerificationError, VerificationMissing) as e:
    print('cffi error:', type(e).__name__)
except Exception as e:
    print('VIOLATED: cdef(%r) raised %s: %s' % (src, type(e).__name__, e))
    sys.exit(1)
sys.exit(0)
