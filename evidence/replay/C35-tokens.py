
# Replay for C35 against the real cffi.pkgconfig: a stub pkg-config program on PATH prints the tokens.
import sys, os, json, tempfile, stat
case = json.loads('{"libs": ["p0"], "table": {"p0": [["-D=", "-D"], ["-l"]]}}')
d = tempfile.mkdtemp()
prog = os.path.join(d, 'pkg-config')
open(prog, 'w').write("""#!%s
import sys, json
table = json.loads(%r)
flag, lib = sys.argv[-2], sys.argv[-1]
sys.stdout.write(' '.join(table[lib][0 if flag == '--cflags' else 1]))
""" % (sys.executable, json.dumps(case['table'])))
os.chmod(prog, 0o755)
os.environ['PATH'] = d + os.pathsep + os.environ['PATH']
from cffi import pkgconfig
got = pkgconfig.flags_from_pkgconfig(case['libs'])
def ref_one(cflags, libs):
    r = dict((k, []) for k in ["include_dirs", "library_dirs", "libraries", "define_macros", "extra_compile_args", "extra_link_args"])
    for t in cflags:
        if t[:2] == '-I': r['include_dirs'].append(t[2:])
        elif t[:2] == '-D':
            b = t[2:]; i = b.find('=')
            r['define_macros'].append((b, None) if i < 0 else (b[:i], b[i+1:]))
        else: r['extra_compile_args'].append(t)
    for t in libs:
        if t[:2] == '-L': r['library_dirs'].append(t[2:])
        elif t[:2] == '-l': r['libraries'].append(t[2:])
        else: r['extra_link_args'].append(t)
    return r
want = None
for lib in case['libs']:
    r = ref_one(*case['table'][lib])
    want = r if want is None else dict((k, want[k] + r[k]) for k in r)
if got != want:
    print('VIOLATED: tokens', case['table'], '->', got, 'expected', want)
    sys.exit(1)
sys.exit(0)
