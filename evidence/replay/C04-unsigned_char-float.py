
# Replay for C04 against the real cffi build.
import sys, json, struct, cffi
case = json.loads('{"bits": 4892396151694295617, "tname": "unsigned char", "size": 1, "signed": false, "bool": false, "source": "float", "obligation": "unsigned1<-float:stored==value-mod-2^bits"}')
ffi = cffi.FFI()
tname, size, signed, isbool, src = case['tname'], case['size'], case['signed'], case['bool'], case['source']
if src == 'int':
    x = case['v']; num = x
elif src == 'float':
    x = struct.unpack('<d', struct.pack('<Q', case['bits']))[0]; num = int(x)
elif src == 'pybool':
    x = bool(case['v']); num = int(x)
elif src == 'bytes1':
    x = bytes([case['v']]); num = case['v']
elif src.startswith('str1'):
    x = chr(case['v']); num = case['v']
else:
    x = ffi.cast('char *', case['v']); num = case['v']
r = ffi.cast(tname, x)
got = int.from_bytes(bytes(ffi.buffer(ffi.new(tname + '*', r)) if False else ffi.buffer(ffi.addressof(ffi.new(tname + '[1]', [r])[0:1], 0), size)), 'little') if False else None
p = ffi.new(tname + '[1]')
p[0] = r
raw = int.from_bytes(bytes(ffi.buffer(p)), 'little')
want = (1 if num != 0 else 0) if isbool else num % (1 << (8 * size))
if isbool and src == 'float':
    want = 1 if x != 0.0 else 0
bad = []
if raw != want:
    bad.append('cast(%r, %r) stores %#x, C conversion gives %#x' % (tname, x, raw, want))
if src == 'pointer':
    back = ffi.cast('char *', ffi.cast('uintptr_t', x))
    if int(ffi.cast('uintptr_t', back)) != case['v']:
        bad.append('pointer -> uintptr_t -> pointer changed the address')
for b in bad:
    print('VIOLATED:', b)
sys.exit(1 if bad else 0)
