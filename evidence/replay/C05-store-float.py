
# Replay for C05 against the real cffi build.
import sys, json, struct, math, cffi
case = json.loads('{"bits": 14407015207446908809, "kind": "store", "tname": "float", "obligation": "store:4:float:read==stored-value"}')
ffi = cffi.FFI()
bad = []
def d(bits): return struct.unpack('<d', struct.pack('<Q', bits))[0]
def cconv32(x):
    try:
        return struct.unpack('<f', struct.pack('<f', x))[0]
    except OverflowError:
        return math.copysign(math.inf, x)
def same(a, b): return (a == b and math.copysign(1, a) == math.copysign(1, b)) or (a != a and b != b)
k = case['kind']
if k in ('store', 'cast'):
    x = d(case['bits']); t = case['tname']
    want = cconv32(x) if t == 'float' else x
    if k == 'store':
        p = ffi.new(t + '*', x); got = p[0]
        if t == 'float':
            raw = struct.unpack('<I', bytes(ffi.buffer(p)))[0]
            wantraw = struct.unpack('<I', struct.pack('<f', want))[0]
            if not (x != x) and raw != wantraw:
                bad.append('float store of %r: bits %#x, C gives %#x' % (x, raw, wantraw))
    else:
        got = float(ffi.cast(t, x))
    if not same(got, want):
        bad.append('%s %s of %r reads back %r, C conversion gives %r' % (t, k, x, got, want))
elif k == 'complex':
    re, im = d(case['re']), d(case['im']); t = case['tname']
    p = ffi.new(t + '*', complex(re, im)); got = p[0]
    wr, wi = (cconv32(re), cconv32(im)) if t.startswith('float') else (re, im)
    if not (same(got.real, wr) and same(got.imag, wi)):
        bad.append('%s store of %r reads back %r' % (t, complex(re, im), got))
elif k == 'longdouble':
    raw = case['raw'].to_bytes(10, 'little') + b'\0' * 6
    p = ffi.new('long double *'); ffi.buffer(p)[:] = raw
    q = ffi.new('long double *', p[0])
    r = ffi.cast('long double', p[0])
    q2 = ffi.new('long double *', r)
    if bytes(ffi.buffer(q))[:10] != raw[:10] or bytes(ffi.buffer(q2))[:10] != raw[:10]:
        bad.append('long double bits %s copied as %s / %s' % (raw[:10].hex(), bytes(ffi.buffer(q))[:10].hex(), bytes(ffi.buffer(q2))[:10].hex()))
for b in bad:
    print('VIOLATED:', b)
sys.exit(1 if bad else 0)
