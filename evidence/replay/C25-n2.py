
# Replay for C25: an out-of-line ABI module (no compiler needed) declaring the given typedef names;
# ffi.typeof(search) must resolve iff `search` is one of them.
import sys, os, json, tempfile, importlib
import cffi
case = json.loads('{"names": ["J0", "k"], "search": "J"}')
names, search = case['names'], case['search']
d = tempfile.mkdtemp()
ffi = cffi.FFI()
ffi.cdef(''.join('typedef struct %s_tag { int f%d; } %s;\n' % (n, i, n) for i, n in enumerate(names)))
ffi.set_source('_c25_replay', None)
ffi.emit_python_code(os.path.join(d, '_c25_replay.py'))
sys.path.insert(0, d)
m = importlib.import_module('_c25_replay')
bad = []
for n in names:
    try:
        t = m.ffi.typeof(n)
        if t.cname != n:
            bad.append('declared %r resolves to %r' % (n, t.cname))
    except Exception as e:
        bad.append('declared %r not found: %s' % (n, e))
if search not in names:
    try:
        t = m.ffi.typeof(search)
        bad.append('undeclared %r found as %r' % (search, t.cname))
    except Exception:
        pass
for b in bad:
    print('VIOLATED:', b)
sys.exit(1 if bad else 0)
