
# Replay of a solver model for C02 against the real cffi build on PYTHONPATH.
# Exits 1 iff the property's statement is violated for this case, 0 otherwise.
import sys, json
import cffi
case = json.loads('{"bitsize": 64, "bitshift": 0, "old": 0, "v": 13296813481336164926, "size": 8, "signed": false, "bool": false, "obligation": "unsigned8:rejected=>out-of-range"}')
size, signed, isbool = case['size'], case['signed'], case.get('bool', False)
bitsize, bitshift, old, v = case['bitsize'], case['bitshift'], case['old'], case['v']
tname = {1: 'char', 2: 'short', 4: 'int', 8: 'long long'}[size]
tname = ('signed ' if signed else 'unsigned ') + tname
if isbool:
    tname = '_Bool'
ffi = cffi.FFI()
pad = ('%s pad:%d; ' % (tname, bitshift)) if bitshift else ''
ffi.cdef('struct s { %s%s f:%d; };' % (pad, tname, bitsize))
p = ffi.new('struct s *')
assert ffi.sizeof('struct s') == size, (ffi.sizeof('struct s'), size)
buf = ffi.buffer(p)
buf[:] = old.to_bytes(size, 'little')
if signed:
    lo, hi = -(1 << (bitsize - 1)), (1 << (bitsize - 1)) - 1
    in_range = lo <= v <= hi or (bitsize == 1 and v == 1)
    expect = -1 if (bitsize == 1 and v == 1) else v
else:
    in_range = 0 <= v <= (1 << bitsize) - 1
    expect = v
fmask = ((1 << bitsize) - 1) << bitshift
bad = []
# value read from arbitrary storage == what C reads (sign/zero extension of the field's bits)
raw = (old >> bitshift) & ((1 << bitsize) - 1)
cread = raw - (1 << bitsize) if (signed and raw >> (bitsize - 1)) else raw
if int(p.f) != cread:
    bad.append('read of storage %#x gives %d, C reads %d' % (old, p.f, cread))
try:
    p.f = v
    ok = True
except OverflowError:
    ok = False
new = int.from_bytes(bytes(buf), 'little')
if ok != in_range:
    bad.append('assigning %d to %s:%d was %s but in_range=%s' % (v, tname, bitsize,
               'accepted' if ok else 'rejected', in_range))
if ok:
    if int(p.f) != expect and in_range:
        bad.append('wrote %d, read back %d (expected %d)' % (v, p.f, expect))
    if (new & ~fmask) != (old & ~fmask):
        bad.append('bits outside the field changed: %#x -> %#x' % (old, new))
else:
    if new != old:
        bad.append('rejected store changed memory: %#x -> %#x' % (old, new))
for b in bad:
    print('VIOLATED:', b)
sys.exit(1 if bad else 0)
