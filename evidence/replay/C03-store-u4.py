
# Replay of a solver model for C03 against the real cffi build on PYTHONPATH.
# Exits 1 iff the property's statement is violated for this case, 0 otherwise.
import sys, json, os, tempfile, shutil
import cffi
case = json.loads('{"v": 9223372041149743099, "old": 4, "size": 4, "signed": false, "bool": false, "enum": false, "path": "store", "obligation": "unsigned4:store:rejected=>memory-unchanged"}')
size, signed, isbool, v, old, path = case['size'], case['signed'], case['bool'], case['v'], case['old'], case['path']
tname = '_Bool' if isbool else ('signed ' if signed else 'unsigned ') + {1: 'char', 2: 'short', 4: 'int', 8: 'long long'}[size]
if isbool:
    lo, hi = 0, 1
elif signed:
    lo, hi = -(1 << (8 * size - 1)), (1 << (8 * size - 1)) - 1
else:
    lo, hi = 0, (1 << (8 * size)) - 1
in_range = lo <= v <= hi
bad = []
if path == 'store':
    ffi = cffi.FFI()
    p = ffi.new(tname + '[3]')
    buf = ffi.buffer(p)
    guard = bytes([0xA5]) * size
    buf[:] = guard + old.to_bytes(size, 'little') + guard
    try:
        p[1] = v
        ok = True
    except OverflowError:
        ok = False
    after = bytes(buf)
    if ok != in_range:
        bad.append('%s <- %d was %s, in_range=%s' % (tname, v, 'accepted' if ok else 'rejected', in_range))
    if ok and in_range and int(p[1]) != v:
        bad.append('stored %d, read back %d' % (v, int(p[1])))
    if not ok and after[size:2 * size] != old.to_bytes(size, 'little'):
        bad.append('rejected store changed the target')
    if after[:size] != guard or after[2 * size:] != guard:
        bad.append('neighbouring memory changed')
    try:
        q = ffi.new(tname + '*', v)
        ok2 = True
    except OverflowError:
        ok2 = False
    if ok2 != in_range or (ok2 and int(q[0]) != v):
        bad.append('ffi.new initializer path disagrees: accepted=%s value=%s' % (ok2, ok2 and int(q[0])))
elif path == 'to_c':
    d = tempfile.mkdtemp(prefix='c03replay')
    try:
        ffi = cffi.FFI()
        ffi.cdef('%s ident(%s);' % (tname, tname))
        ffi.set_source('_c03_replay', '%s ident(%s x) { return x; }' % (tname, tname))
        ffi.compile(tmpdir=d)
        sys.path.insert(0, d)
        import _c03_replay
        try:
            r = _c03_replay.lib.ident(v)
            ok = True
        except OverflowError:
            ok = False
        if ok != in_range:
            bad.append('API-mode argument %s <- %d was %s, in_range=%s' % (tname, v, 'accepted' if ok else 'rejected', in_range))
        if ok and in_range and int(r) != v:
            bad.append('C function received/returned %d for %d' % (int(r), v))
    finally:
        shutil.rmtree(d, ignore_errors=True)
else:
    ffi = cffi.FFI()
    errors = []
    cb = ffi.callback(tname + '(void)', lambda: v, error=(0 if isbool else (7 if hi >= 7 else 0)),
                      onerror=lambda *a: errors.append(a[0]))
    r = int(cb())
    if in_range:
        if r != v or errors:
            bad.append('callback returning %d: C caller received %d, errors=%r' % (v, r, errors))
    else:
        if not errors or errors[0] is not OverflowError or r != (0 if isbool else (7 if hi >= 7 else 0)):
            bad.append('callback returning out-of-range %d: C caller received %d, errors=%r' % (v, r, errors))
for b in bad:
    print('VIOLATED:', b)
sys.exit(1 if bad else 0)
