
# Replay for C15 against the real cffi build.
import sys, json, cffi
case = json.loads('{"unit": 2, "cps": [55297, 56321], "n_arr": 3, "old": [0, 0, 0]}')
ffi = cffi.FFI()
unit, cps, n_arr, old = case['unit'], case['cps'], case['n_arr'], case['old']
bad = []
if unit == 1:
    s = bytes(cps); tname = 'char'; zero = b'\0'
    enc = list(s)
else:
    s = ''.join(chr(c) for c in cps); tname = {2: 'char16_t', 4: 'char32_t'}[unit]
    enc = []
    for c in cps:
        if unit == 2 and c > 0xFFFF:
            c -= 0x10000; enc += [0xD800 | (c >> 10), 0xDC00 | (c & 0x3FF)]
        else:
            enc.append(c)
a = ffi.new('%s[%d]' % (tname, n_arr))
itype = {1: 'unsigned char', 2: 'uint16_t', 4: 'uint32_t'}[unit]
raw = ffi.cast(itype + ' *', a)
for k in range(n_arr):
    raw[k] = old[k]
try:
    a[0:0] = a[0:0]
    ffi.cast(tname + '(*)[%d]' % n_arr, a)[0] = s
    ok = True
except IndexError:
    ok = False
now = [raw[k] for k in range(n_arr)]
if len(enc) > n_arr:
    if ok or now != old:
        bad.append('string of %d units into %s[%d]: accepted=%s, memory changed=%s' % (len(enc), tname, n_arr, ok, now != old))
else:
    want = enc + ([0] if len(enc) < n_arr else []) + old[len(enc) + 1:]
    if not ok:
        bad.append('string of %d units into %s[%d] rejected' % (len(enc), tname, n_arr))
    elif now != want:
        bad.append('%s[%d] <- %r over %r: memory %r, expected %r' % (tname, n_arr, s, old, now, want))
    else:
        back = ffi.string(a)
        if back != s:
            bad.append('%s: %r round-trips to %r' % (tname, s, back))
for b in bad:
    print('VIOLATED:', b)
sys.exit(1 if bad else 0)
