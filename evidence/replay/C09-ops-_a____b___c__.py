
# Replay for C09 (operators): evaluates the expression through cffi's real parser (enum value)
# and through the C compiler; exits 1 iff they differ.
import sys, json, subprocess, tempfile, os
import cffi
case = json.loads('{"expr": "(a + (b / c))", "vals": {"a": 0, "b": -4611686018427387905, "c": 4611686018427387906}}')
expr = case['expr']
for k, v in case['vals'].items():
    expr = expr.replace(k, '(%dLL)' % v if v >= 0 else '(-%dLL - 1)' % (-v - 1) if v == -(1 << 63) else '(%dLL)' % v)
ffi = cffi.FFI()
try:
    ffi.cdef('static const long long dummy; struct s { char a[1]; }; ')
    p = ffi._parser
    import pycparser
    ast = pycparser.CParser().parse('int x = %s;' % expr)
    got = ('ok', p._parse_constant(ast.ext[0].init))
except Exception as e:
    got = ('exc', type(e).__name__)
d = tempfile.mkdtemp()
src = os.path.join(d, 't.c')
open(src, 'w').write('#include <stdio.h>\nint main(void){ long long v = %s; printf("%%lld\\n", v); return 0; }\n' % expr)
r = subprocess.run(['gcc', '-w', '-o', os.path.join(d, 't'), src], capture_output=True)
want = None
if r.returncode == 0:
    want = int(subprocess.run([os.path.join(d, 't')], capture_output=True).stdout.decode().strip())
bad = want is not None and got != ('ok', want)
print('VIOLATED:' if bad else 'agree:', 'cffi:', got, ' gcc:', want)
sys.exit(1 if bad else 0)
