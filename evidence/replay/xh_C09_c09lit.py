
_EXCL = {}


def _ok(name, *args):
    """False for inputs that were already checked concretely (CrossHair reported them as
    counterexamples but they did not reproduce in plain CPython: artefacts of its models)."""
    return list(args) not in _EXCL.get(name, [])


import sys
from cffi import cparser
from cffi.error import CDefError, FFIError
from pycparser import c_ast

_parser = cparser.Parser()

SIMPLE_ESC = {'n': 10, 't': 9, 'r': 13, '0': 0, chr(92): 92, chr(39): 39, chr(34): 34, 'a': 7, 'b': 8,
              'f': 12, 'v': 11, '?': 63}
SUF = ['', 'u', 'U', 'l', 'L', 'ul', 'UL', 'uL', 'Ul', 'lu', 'LU', 'll', 'LL', 'ull', 'ULL', 'llu', 'LLU',
       'uLL', 'Ull', 'LLu', 'llU']


def value(digs, base):
    """positional value of a digit string (reference, independent of int(s, base))"""
    alphabet = '0123456789abcdef'
    v = 0
    for ch in digs:
        v = v * base + alphabet.index(ch.lower())
    return v


def all_in(digs, ok):
    for ch in digs:
        if ch not in ok:
            return False
    return True


def c_char_literal(s):
    """value of a character constant 'c' or simple escape, else None"""
    if len(s) == 3 and s[0] == chr(39) and s[2] == chr(39) and s[1] not in (chr(39), chr(92), chr(10)):
        return ord(s[1])
    if len(s) == 4 and s[0] == chr(39) and s[3] == chr(39) and s[1] == chr(92) and s[2] in SIMPLE_ESC:
        return SIMPLE_ESC[s[2]]
    return None


def _eval(s):
    return _parser._parse_constant(c_ast.Constant('int', s))


def prop_decimal(d: str, k: int) -> bool:
    """
    pre: 1 <= len(d) <= 3
    pre: 0 <= k < len(SUF)
    pre: _ok('prop_decimal', d, k)
    pre: d[0] in '123456789' and all_in(d, '0123456789')
    post: _ == True
    """
    return _eval(d + SUF[k]) == value(d, 10)


def prop_octal(d: str, k: int) -> bool:
    """
    pre: 1 <= len(d) <= 3
    pre: 0 <= k < len(SUF)
    pre: _ok('prop_octal', d, k)
    pre: d[0] == '0' and all_in(d, '01234567')
    post: _ == True
    """
    return _eval(d + SUF[k]) == value(d, 8)


def prop_hex(d: str, k: int, upper: bool) -> bool:
    """
    pre: 1 <= len(d) <= 3 - 1
    pre: 0 <= k < len(SUF)
    pre: _ok('prop_hex', d, k, upper)
    pre: all_in(d, '0123456789abcdefABCDEF')
    post: _ == True
    """
    return _eval(('0X' if upper else '0x') + d + SUF[k]) == value(d, 16)


def prop_binary(d: str, k: int, upper: bool) -> bool:
    """
    pre: 1 <= len(d) <= 3 - 1
    pre: 0 <= k < len(SUF)
    pre: _ok('prop_binary', d, k, upper)
    pre: all_in(d, '01')
    post: _ == True
    """
    return _eval(('0B' if upper else '0b') + d + SUF[k]) == value(d, 2)


def prop_char_literal_plain(s: str) -> bool:
    """
    pre: len(s) == 3
    pre: _ok('prop_char_literal_plain', s)
    pre: c_char_literal(s) is not None
    post: _ == True
    """
    return _eval(s) == c_char_literal(s)


def prop_char_literal_escape(s: str) -> bool:
    """
    pre: len(s) == 4
    pre: _ok('prop_char_literal_escape', s)
    pre: c_char_literal(s) is not None
    post: _ == True
    """
    return _eval(s) == c_char_literal(s)


def prop_unary(n: int) -> bool:
    """
    pre: 0 <= n < 2**63
    post: _ == True
    """
    p = cparser.Parser()
    p._int_constants['n'] = n
    neg = p._parse_constant(c_ast.UnaryOp('-', c_ast.ID('n')))
    pos = p._parse_constant(c_ast.UnaryOp('+', c_ast.ID('n')))
    return neg == -n and pos == n
