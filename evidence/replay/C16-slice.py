
# Replay for C16 against the real cffi build.
import sys, json, cffi
case = json.loads('{"i": -170141183460469231731687303715884105728, "j": 0, "n": 0, "itemsize": 1, "base": 0, "kind": "slice", "obligation": "slice:array-fixed:rejected=>IndexError"}')
ffi = cffi.FFI()
bad = []
k = case['kind']
if k == 'index':
    n, i = case['n'], case['i']
    if 0 < n <= 1000:
        a = ffi.new('short[]', n)
        try:
            a[i]
            ok = True
        except IndexError:
            ok = False
        if ok != (0 <= i < n):
            bad.append('short[%d]: index %d %s' % (n, i, 'accepted' if ok else 'rejected'))
        try:
            a[i] = 1
            ok = True
        except IndexError:
            ok = False
        if ok != (0 <= i < n):
            bad.append('short[%d]: store at index %d %s' % (n, i, 'accepted' if ok else 'rejected'))
    p = ffi.new('int *')
    try:
        p[i]
        ok = True
    except IndexError:
        ok = False
    if ok != (i == 0):
        bad.append('owning int*: index %d %s' % (i, 'accepted' if ok else 'rejected'))
elif k == 'slice':
    n, i, j = case['n'], case['i'], case['j']
    if 0 < n <= 1000:
        a = ffi.new('short[]', n)
        try:
            s = a[i:j]
            ok = True
        except IndexError:
            ok = False
        want = 0 <= i <= j <= n
        if ok != want:
            bad.append('short[%d][%d:%d] %s' % (n, i, j, 'accepted' if ok else 'rejected'))
        elif ok and (len(s) != j - i or ffi.cast('char *', s) != ffi.cast('char *', a) + 2 * i):
            bad.append('short[%d][%d:%d] gives length %d at wrong address' % (n, i, j, len(s)))
elif k == 'ass_slice':
    n, i, j, cnt = case['n'], case['i'], case['j'], case['count']
    a = ffi.new('int[]', n)
    try:
        a[i:j] = [7] * cnt
        ok = True
    except (ValueError, IndexError):
        ok = False
    if ok != (cnt == j - i):
        bad.append('int[%d][%d:%d] = <%d values> %s' % (n, i, j, cnt, 'accepted' if ok else 'rejected'))
    try:
        a[i:j] = ffi.new('int[]', cnt)
        ok = True
    except (ValueError, IndexError, TypeError):
        ok = False
    if ok != (cnt == j - i):
        bad.append('int[%d][%d:%d] = <int[%d] cdata> %s' % (n, i, j, cnt, 'accepted' if ok else 'rejected'))
    c = ffi.new('char[]', n)
    try:
        c[i:j] = b'x' * cnt
        ok = True
    except (ValueError, IndexError):
        ok = False
    if ok != (cnt == j - i):
        bad.append('char[%d][%d:%d] = <%d bytes> %s' % (n, i, j, cnt, 'accepted' if ok else 'rejected'))
elif k == 'arith':
    base, i, isz = case['base'], case['i'], case['itemsize']
    t = {1: 'char', 2: 'short', 4: 'int', 8: 'long long', 12: 'struct s12', 24: 'struct s24'}[isz]
    ffi.cdef('struct s12 { int a[3]; }; struct s24 { long long a[3]; };')
    p = ffi.cast(t + ' *', base)
    q = p + i
    addr = int(ffi.cast('uintptr_t', q))
    if addr != (base + i * isz) % 2**64:
        bad.append('(%s*)%#x + %d is at %#x' % (t, base, i, addr))
    if abs(i * isz) < 2**63 and (q - p) != i:
        bad.append('(p + %d) - p == %d' % (i, q - p))
for b in bad:
    print('VIOLATED:', b)
sys.exit(1 if bad else 0)
