
# Replay for C19 against the real cffi build: ffi.buffer vs a bytearray model, from_buffer, memmove.
import sys, json, array, cffi
case = json.loads('{"kind": "from_buffer", "len": 1352115683328, "exp_itemsize": 61, "fixed_len": 538996113409, "itemsize": 8}')
ffi = cffi.FFI()
bad = []
k = case['kind']
def run(f):
    try:
        return ('ok', f())
    except Exception as e:
        return ('exc', type(e).__name__)
if k in ('getitem', 'setitem', 'getslice', 'setslice'):
    data = bytes(case['data'])
    p = ffi.new('char[]', data) if data else ffi.new('char[]', 1)
    buf = ffi.buffer(p, len(data))
    model = bytearray(data)
    key = case['key'] if k in ('getitem', 'setitem') else slice(case['start'], case['stop'], case.get('step'))
    if k in ('getitem', 'getslice'):
        a = run(lambda: bytes(buf[key]))
        b = run(lambda: bytes(model[key]) if isinstance(key, slice) else bytes([model[key]]))
        if k == 'getslice' and case.get('step') not in (None, 1):
            b = a   # stepped slices are refused by design (TypeError)
    else:
        rhs = bytes(case['rhs'])
        def seta():
            buf[key] = rhs
            return bytes(buf[:])
        def setb():
            if isinstance(key, slice):
                lo, hi, st = key.indices(len(model))
                if max(hi - lo, 0) != len(rhs):
                    raise ValueError('length')
                model[key] = rhs
            else:
                if len(rhs) != 1:
                    raise TypeError('len')
                model[key] = rhs[0]
            return bytes(model)
        a, b = run(seta), run(setb)
    if a != b:
        bad.append('%s %r on %r: buffer -> %r, bytearray model -> %r' % (k, key, data, a, b))
elif k == 'from_buffer':
    L, E, fixed, isz = case['len'], case['exp_itemsize'], case['fixed_len'], case['itemsize']
    if L % E == 0 and L <= 4096 and E in (1, 2, 4, 8):
        src = array.array({1: 'B', 2: 'H', 4: 'I', 8: 'Q'}[E], [0] * (L // E))
        t = {1: 'char', 2: 'short', 4: 'int', 8: 'long long', 12: 'struct s12'}[isz]
        ffi.cdef('struct s12 { int a[3]; };')
        ctype = '%s[%s]' % (t, '' if fixed is None else fixed)
        r = run(lambda: ffi.from_buffer(ctype, src))
        if fixed is None:
            if r[0] != 'ok' or len(r[1]) != L // isz:
                bad.append('from_buffer(%r, <%d bytes>) -> %r' % (ctype, L, r if r[0] != 'ok' else len(r[1])))
        else:
            too_small = L < fixed * isz
            if too_small != (r == ('exc', 'ValueError')):
                bad.append('from_buffer(%r, <%d bytes of itemsize %d>) -> %r' % (ctype, L, E, r[0] if r[0] == 'ok' else r))
elif k == 'memmove':
    data = bytes(case['data']); d, s, n = case['dst'], case['src'], case['n']
    p = ffi.new('char[]', data)
    ffi.memmove(p + d, p + s, n)
    model = bytearray(data); tmp = bytes(model[s:s + n]); model[d:d + n] = tmp
    if bytes(ffi.buffer(p, len(data))) != bytes(model):
        bad.append('memmove(+%d, +%d, %d) on %r -> %r, model %r' % (d, s, n, data, bytes(ffi.buffer(p, len(data))), bytes(model)))
for b in bad:
    print('VIOLATED:', b)
sys.exit(1 if bad else 0)
