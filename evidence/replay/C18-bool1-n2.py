
# Replay for C18 against the real cffi build: ffi.unpack(p, n) vs [p[i] for i in range(n)]
import sys, json, cffi
case = json.loads('{"kind": "bool", "size": 1, "n": 2, "misalign": 7, "data": "0082"}')
ffi = cffi.FFI()
kind, size, n, mis, data = case['kind'], case['size'], case['n'], case['misalign'], bytes.fromhex(case['data'])
ffi.cdef('struct s12 { char c[12]; };')
tn = {'signed': {1: 'signed char', 2: 'short', 4: 'int', 8: 'long long'}, 'unsigned': {1: 'unsigned char', 2: 'unsigned short', 4: 'unsigned int', 8: 'unsigned long long'},
      'bool': {1: '_Bool'}, 'float': {4: 'float', 8: 'double'}, 'char': {1: 'char'}, 'pointer': {8: 'int *'},
      'funcptr': {8: 'int(*)(void)'}, 'struct': {12: 'struct s12'}}[kind][size]
raw = ffi.new('char[]', 16 + len(data) + 16)
base = int(ffi.cast('uintptr_t', raw))
start = (-base) % 16 + mis
ffi.buffer(raw)[start:start + len(data)] = data
p = ffi.cast(tn + ' *', ffi.cast('char *', raw) + start)
def run(f):
    try:
        return ('ok', f())
    except Exception as e:
        return ('exc', type(e).__name__)
a = run(lambda: ffi.unpack(p, n))
b = run(lambda: [p[i] for i in range(n)])
if a[0] == 'ok' and b[0] == 'ok':
    if kind == 'char':
        same = a[1] == b''.join(b[1])
    elif kind == 'struct':
        same = len(a[1]) == len(b[1]) and all(ffi.addressof(x) == ffi.addressof(y) for x, y in zip(a[1], b[1]))
    elif kind == 'float':
        same = len(a[1]) == len(b[1]) and all(x == y or (x != x and y != y) for x, y in zip(a[1], b[1]))
    else:
        same = a[1] == b[1]
else:
    same = a == b
if not same:
    print('VIOLATED: unpack ->', a, ' elementwise ->', b)
sys.exit(0 if same else 1)
