#!/bin/sh
# seed_detect.sh <seedname> <check id>...   -- run checks against a scratch worktree with the seeded patch applied
N=$1; shift
D=/verif/seeded/$N
W=/tmp/wt/detect-$N
git -C /repo worktree remove --force $W 2>/dev/null
git -C /repo worktree add -q --detach $W HEAD || exit 9
cd $W && (git apply --whitespace=nowarn $D/patch.diff 2>/dev/null || git apply -3 --whitespace=nowarn $D/patch.diff) || { echo "patch does not apply"; git -C /repo worktree remove --force $W; exit 1; }
cd /verif
for id in "$@"; do
  VERIF_REPO=$W timeout 3000 bin/check $id --tier ${TIER:-quick} > $D/detect-$id.log 2>&1
  echo "$N $id exit=$? : $(grep -c '^VIOLATION' $D/detect-$id.log) violation line(s); $(tail -1 $D/detect-$id.log)"
done
git -C /repo worktree remove --force $W
