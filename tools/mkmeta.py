#!/usr/bin/env python3
"""Write seeded/<name>/meta.json for every kept seeded change from the files produced while confirming it:
notes.md (the seeding agent's description), confirm.log (tools/seed_confirm.sh) and detect-<ID>.log
(tools/seed_detect.sh)."""
import os, re, json, glob, subprocess

V = os.path.dirname(os.path.dirname(os.path.abspath(__file__)))
head = subprocess.run(['git', '-C', '/repo', 'log', '--format=%h', '-1'], stdout=subprocess.PIPE).stdout.decode().strip()
for d in sorted(glob.glob(os.path.join(V, 'seeded', '*'))):
    name = os.path.basename(d)
    pid = name.split('-')[0]
    notes = open(os.path.join(d, 'notes.md')).read() if os.path.exists(os.path.join(d, 'notes.md')) else ''
    conf = open(os.path.join(d, 'confirm.log')).read() if os.path.exists(os.path.join(d, 'confirm.log')) else ''
    # what it needs to manifest: the paragraph(s) of the notes that talk about the trigger
    paras = [p.strip() for p in re.split(r'\n\s*\n', notes) if p.strip() and not re.match(r'^#+ [^\n]*$', p.strip())]
    trig = [p for p in paras if re.search(r'trigger|manifest|needs|specific input|only when|requires', p, re.I)]
    files = sorted(set(re.findall(r'^\+\+\+ b/(\S+)', open(os.path.join(d, 'patch.diff')).read(), re.M)))
    det = {}
    for f in sorted(glob.glob(os.path.join(d, 'detect-*.log'))):
        cid = os.path.basename(f)[7:-4]
        t = open(f).read()
        last = t.strip().split('\n')[-1] if t.strip() else ''
        viol = re.findall(r'^VIOLATION property=\S+ replay=(\S*)\n\s+(.*)$', t, re.M)
        m = re.search(r'-> exit (\d+)', last)
        det[cid] = {'command': 'VERIF_REPO=<scratch worktree of /repo with patch.diff applied> bin/check %s --tier quick' % cid,
                    'exit': int(m.group(1)) if m else None, 'violation_lines': len(viol),
                    'reproduced_on_real_build': sum(1 for r, w in viol if r),
                    'first_violation': (viol[0][1][:300] if viol else None), 'summary': last}
    meta = {
        'name': name, 'property': pid,
        'origin': 'written by a fresh sub-agent that was given only the text of property %s and its own scratch git worktree of /repo '
                  '(nothing from /verif); never committed to /repo' % pid,
        'files_changed': files,
        'what_it_breaks': (paras[0][:900] if paras else ''),
        'needs_to_manifest': ('\n\n'.join(trig)[:1500] if trig else (notes[:900])),
        'confirmation': {
            'command': 'tools/seed_confirm.sh %s   (scratch worktree of /repo HEAD: demo.py without the patch, git apply, rebuild, demo.py with the patch, full existing suite via tools/runtests.sh)' % name,
            'demo_without_patch_exit_0': 'demo without patch: exit 0' in conf,
            'patch_applies': 'patch applies: yes' in conf,
            'builds': 'build with patch: ok' in conf,
            'demo_with_patch_fails': bool(re.search(r'demo with patch: exit [1-9]', conf)),
            'suite_with_patch': [l.strip() for l in conf.split('\n') if re.match(r'^(src/c|testing/)', l.strip())],
        },
        'detection': det,
        'detected': any(v['exit'] == 1 and v['violation_lines'] > 0 for v in det.values()),
    }
    json.dump(meta, open(os.path.join(d, 'meta.json'), 'w'), indent=1)
    print(name, 'detected' if meta['detected'] else 'NOT DETECTED', {k: (v['exit'], v['violation_lines']) for k, v in det.items()})
