#!/bin/sh
# seed_confirm.sh <seedname> [<srcdir>]
# Confirms a seeded change in a scratch worktree of /repo HEAD: demo passes without the patch, fails with it,
# the project builds and the full existing test-suite passes with it.  Writes /verif/seeded/<name>/confirm.log
N=$1
SRC=${2:-/tmp/wt/$N/.seed}
D=/verif/seeded/$N
mkdir -p $D
[ -f $SRC/patch.diff ] && cp $SRC/patch.diff $D/patch.diff
[ -f $SRC/demo.py ] && cp $SRC/demo.py $D/demo.py
[ -f $SRC/notes.md ] && cp $SRC/notes.md $D/notes.md
W=/tmp/wt/confirm-$N
git -C /repo worktree remove --force $W 2>/dev/null
git -C /repo worktree add -q --detach $W HEAD || exit 9
L=$D/confirm.log
: > $L
cd $W
/venv/bin/python setup.py -q build_ext -i >/dev/null 2>&1 || { echo "BUILD-FAILED (clean)" >> $L; }
PYTHONPATH=$W/src /venv/bin/python $D/demo.py > $W/.demo0.out 2>&1; echo "demo without patch: exit $?" >> $L
if git apply --whitespace=nowarn $D/patch.diff 2>>$L || git apply -3 --whitespace=nowarn $D/patch.diff 2>>$L; then
  echo "patch applies: yes" >> $L
else
  echo "patch applies: NO" >> $L
  cd /; git -C /repo worktree remove --force $W; exit 1
fi
touch src/c/_cffi_backend.c
if /venv/bin/python setup.py -q build_ext -i >$W/.build.log 2>&1; then echo "build with patch: ok" >> $L; else echo "build with patch: FAILED" >> $L; fi
PYTHONPATH=$W/src /venv/bin/python $D/demo.py > $W/.demo1.out 2>&1; echo "demo with patch: exit $?" >> $L
tail -3 $W/.demo1.out | sed 's/^/    /' >> $L
/verif/tools/runtests.sh $W >> $L 2>&1
cd /
git -C /repo worktree remove --force $W
cat $L
