#!/bin/sh
# usage: runtests.sh <worktree>   -- runs the full suite in 4 parallel shards, prints summary lines
WT=$1
cd $WT
for d in testing/cffi0 testing/cffi1 testing/embedding src/c; do
  n=$(echo $d | tr '/' '_')
  ( PYTHONPATH=$WT/src /venv/bin/python -m pytest -q -p no:cacheprovider --timeout=900 --continue-on-collection-errors $d > $WT/.test_$n.log 2>&1; echo "$d: $(tail -1 $WT/.test_$n.log)" ) &
done
wait
