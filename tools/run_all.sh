#!/bin/sh
# tools/run_all.sh [quick|thorough]  -- every registered check against /repo, one after the other; summary on stdout.
# Evidence (evidence/<ID>.json, evidence/tiers/) is rewritten by the checks themselves.
TIER=${1:-quick}
cd "$(dirname "$0")/.."
IDS=$(.venv/bin/python -c "
import json; print(' '.join(c['property_id'] for c in json.load(open('MANIFEST.json'))['checks']))")
rc_all=0
for id in $IDS; do
  out=$(bin/check $id --tier $TIER 2>&1); rc=$?
  echo "$id rc=$rc $(echo "$out" | tail -1)"
  [ $rc -ne 0 ] && rc_all=1
done
exit $rc_all
